package main

import (
	"fmt"
	"go/constant"
	"go/token"
	"go/types"
	"os"
	"path/filepath"
	"sort"
	"strings"

	"golang.org/x/tools/go/packages"
	"golang.org/x/tools/go/ssa"
	"golang.org/x/tools/go/ssa/ssautil"
)

const modulePath = "oras.land/oras-go/v2"

type Program struct {
	Repo    string
	Fset    *token.FileSet
	Pkgs    map[string]*packages.Package // by import path (including deps)
	SSA     *ssa.Program
	Funcs   map[string]*ssa.Function // by key (RelString(nil))
	Specs   *Specs
	mutGlob map[*ssa.Global]bool
	Renames  *renameMaps
	UnknownContracts []string
	reSrc    map[string]string // package-level regexps initialised by regexp.MustCompile(<constant>): their patterns
	plainErr map[string]bool // package-level errors initialised by errors.New (match only themselves)
}

func LoadProgram(repo, specDir string) (*Program, error) {
	cfg := &packages.Config{Mode: packages.LoadAllSyntax, Dir: repo, BuildFlags: []string{"-tags=verif"},
		Env: append(os.Environ(), "GOFLAGS=-mod=mod", "GOPROXY=off", "GOSUMDB=off", "GOTOOLCHAIN=local")}
	pkgs, err := packages.Load(cfg, "./...")
	if err != nil {
		return nil, err
	}
	nerr := 0
	packages.Visit(pkgs, nil, func(p *packages.Package) {
		if strings.HasPrefix(p.PkgPath, modulePath) {
			for _, e := range p.Errors {
				fmt.Fprintf(os.Stderr, "load error: %v\n", e)
				nerr++
			}
		}
	})
	if nerr > 0 {
		return nil, fmt.Errorf("%d package load errors", nerr)
	}
	prog, _ := ssautil.AllPackages(pkgs, ssa.InstantiateGenerics|ssa.GlobalDebug)
	prog.Build()
	p := &Program{Repo: repo, SSA: prog, Pkgs: map[string]*packages.Package{}, Funcs: map[string]*ssa.Function{}, mutGlob: map[*ssa.Global]bool{}, plainErr: map[string]bool{}, reSrc: map[string]string{}}
	dirToPkg := map[string]string{}
	packages.Visit(pkgs, nil, func(pk *packages.Package) {
		p.Pkgs[pk.PkgPath] = pk
		if p.Fset == nil {
			p.Fset = pk.Fset
		}
		if strings.HasPrefix(pk.PkgPath, modulePath) && len(pk.GoFiles) > 0 {
			dirToPkg[filepath.Dir(pk.GoFiles[0])] = pk.PkgPath
		}
	})
	for fn := range ssautil.AllFunctions(prog) {
		if fn.Pkg == nil && fn.Origin() == nil && fn.Parent() == nil {
			// synthetic wrappers etc.
			if fn.Synthetic != "" {
				continue
			}
		}
		// generic functions: the generic body (type parameters as interface values) is the
		// one verified; instances never replace it
		if prev, ok := p.Funcs[funcKey(fn)]; !ok || (prev.Origin() != nil && fn.Origin() == nil) {
			p.Funcs[funcKey(fn)] = fn
		}
		// mutable globals: stored to outside package initialisers
		if fn.Name() == "init" || strings.HasPrefix(fn.Name(), "init#") {
			for _, b := range fn.Blocks {
				for _, in := range b.Instrs {
					if st, ok := in.(*ssa.Store); ok {
						if g, ok := st.Addr.(*ssa.Global); ok {
							if call, ok := st.Val.(*ssa.Call); ok {
								if cf := call.Call.StaticCallee(); cf != nil && cf.RelString(nil) == "errors.New" {
									p.plainErr[g.Pkg.Pkg.Path()+"."+g.Name()] = true
								}
								if cf := call.Call.StaticCallee(); cf != nil && cf.RelString(nil) == "regexp.MustCompile" && len(call.Call.Args) == 1 {
									if k, ok := call.Call.Args[0].(*ssa.Const); ok && k.Value != nil && k.Value.Kind() == constant.String {
										p.reSrc[g.Pkg.Pkg.Path()+"."+g.Name()] = constant.StringVal(k.Value)
									}
								}
							}
						}
					}
				}
			}
			continue
		}
		for _, b := range fn.Blocks {
			for _, in := range b.Instrs {
				if st, ok := in.(*ssa.Store); ok {
					if g, ok := st.Addr.(*ssa.Global); ok {
						p.mutGlob[g] = true
					}
				}
			}
		}
	}
	// spec files
	var files []string
	filepath.Walk(repo, func(path string, info os.FileInfo, err error) error {
		if err == nil && !info.IsDir() && info.Name() == "zz_verif_contracts.go" {
			files = append(files, path)
		}
		return nil
	})
	if specDir != "" {
		m, _ := filepath.Glob(filepath.Join(specDir, "*.spec"))
		files = append(files, m...)
	}
	sp, err := LoadSpecs(files, func(f string) string {
		if strings.HasSuffix(f, ".spec") {
			return ""
		}
		return dirToPkg[filepath.Dir(f)]
	})
	if err != nil {
		return nil, err
	}
	p.Specs = sp
	if specDir != "" {
		p.Renames = loadRenames(repo, filepath.Join(filepath.Dir(specDir), "baseline_src"))
	}
	// a contract that names no function of the loaded program is a mistake (misspelt name,
	// package alias not imported at that point of the spec file): silently ignoring it would
	// leave the function uncontracted
	var unknown []string
	for key, fc := range sp.Funcs {
		if fc.Kind != "extern" {
			continue
		}
		if _, ok := p.Funcs[key]; !ok {
			if fc.Kind == "extern" && strings.Contains(key, ".") && !strings.Contains(key, "/") && !strings.HasPrefix(key, "(") {
				// package-level variables of func type (e.g. retry.DefaultPredicate) are addressed by qualified name
			}
			unknown = append(unknown, fc.Kind+" "+key+" ("+fc.Where+")")
		}
	}
	sort.Strings(unknown)
	if len(unknown) > 0 && os.Getenv("GOCV_LIST_UNKNOWN") != "" {
		for _, u := range unknown {
			fmt.Fprintln(os.Stderr, "contract names no function:", u)
		}
	}
	p.UnknownContracts = unknown
	if len(unknown) > 0 {
		return nil, fmt.Errorf("contracts that name no function of the program: %s", strings.Join(unknown, "; "))
	}
	return p, nil
}

func funcKey(fn *ssa.Function) string {
	if o := fn.Origin(); o != nil {
		return o.RelString(nil)
	}
	return fn.RelString(nil)
}

// instance key includes type arguments
func funcInstKey(fn *ssa.Function) string { return fn.RelString(nil) }

// ContractFor finds the contract of an SSA function (generic instances share
// the origin's contract).
func (p *Program) ContractFor(fn *ssa.Function) *FuncContract {
	if fc, ok := p.Specs.Funcs[funcKey(fn)]; ok {
		return fc
	}
	if fc, ok := p.Specs.Funcs[funcInstKey(fn)]; ok {
		return fc
	}
	return nil
}

func (p *Program) inModule(fn *ssa.Function) bool {
	pk := fn.Pkg
	if pk == nil && fn.Origin() != nil {
		pk = fn.Origin().Pkg
	}
	for pk == nil && fn.Parent() != nil {
		fn = fn.Parent()
		pk = fn.Pkg
	}
	return pk != nil && strings.HasPrefix(pk.Pkg.Path(), modulePath)
}

func (p *Program) typesPkg(path string) *types.Package {
	if pk, ok := p.Pkgs[path]; ok {
		return pk.Types
	}
	return nil
}

// FuncsWithProp lists functions under contract (kind func, not trusted) that
// carry at least one clause tagged with prop.
func (p *Program) FuncsWithProp(prop string) []*FuncContract {
	var out []*FuncContract
	for _, fc := range p.Specs.Funcs {
		if fc.Kind != "func" {
			continue
		}
		if contractHasProp(fc, prop) {
			out = append(out, fc)
		}
	}
	sort.Slice(out, func(i, j int) bool { return out[i].PkgPath+out[i].Name < out[j].PkgPath+out[j].Name })
	return out
}

func contractProps(fc *FuncContract) map[string]bool {
	ps := map[string]bool{}
	for _, s := range fc.Serves {
		ps[s] = true
	}
	add := func(cs []*Clause) {
		for _, c := range cs {
			for _, p := range c.Props {
				ps[p] = true
			}
		}
	}
	add(fc.Requires)
	add(fc.Ensures)
	for _, l := range fc.Loops {
		add(l.Invs)
		if l.Decreases != nil {
			add([]*Clause{l.Decreases})
		}
	}
	for _, cs := range fc.Calls {
		add(cs.Requires)
	}
	return ps
}

func contractHasProp(fc *FuncContract, prop string) bool { return contractProps(fc)[prop] }

func (p *Program) pos(pos token.Pos) string {
	if !pos.IsValid() {
		return "-"
	}
	ps := p.Fset.Position(pos)
	rel, err := filepath.Rel(p.Repo, ps.Filename)
	if err != nil {
		rel = ps.Filename
	}
	return fmt.Sprintf("%s:%d", rel, ps.Line)
}
