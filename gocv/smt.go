package main

import (
	"crypto/sha1"
	"fmt"
	"go/types"
	"sort"
	"strings"
)

type Term = string

// Ctx accumulates the SMT-LIB text of one function's verification conditions.
// Lines are emitted in program order; an obligation is decided against the
// prefix of lines that existed when it was recorded.
type Ctx struct {
	P         *Program
	lines     []string
	declared  map[string]bool
	sortName  map[string]string // types.Type string -> sort name
	usedSorts map[string]bool
	compSort  map[string]string // component -> sort
	compInit  map[string]Term
	obls      []*Obligation
	n         int
	strLits   map[string]Term
	globals   map[string]Term
	dry       bool
	loopMods  map[string]map[string]bool
	assumed   map[string]bool // assumptions used (for evidence)
	unsupp    []string
	fnName    string
	tyTags    map[string]int
	pre       map[string]string // components discovered by the dry run (name -> sort)
	sortDecls []string          // sort and datatype declarations (emitted first in every query)
}

type Obligation struct {
	RawQuery string // complete SMT-LIB text (regular-expression lemmas), instead of context + goal
	Re       *ReLemma
	RePkg    string
	Name   string
	Kind   string
	Label  string
	Props  []string
	Fn     string
	CtxLen int
	PC     Term
	Goal   Term
	Where  string
	Src    string
	// results
	Status  string // "unsat" (discharged), "sat", "unknown", "timeout", "error"
	Solver  string
	Ms      int64
	Output  string
	Query   string
}

func NewCtx(p *Program, fnName string) *Ctx {
	c := &Ctx{P: p, declared: map[string]bool{}, sortName: map[string]string{}, usedSorts: map[string]bool{},
		compSort: map[string]string{}, compInit: map[string]Term{}, strLits: map[string]Term{}, globals: map[string]Term{},
		loopMods: map[string]map[string]bool{}, assumed: map[string]bool{}, fnName: fnName, tyTags: map[string]int{}}
	c.prelude()
	return c
}

func (c *Ctx) emit(s string) { c.lines = append(c.lines, s) }

func (c *Ctx) assert(t Term) {
	if t == "true" {
		return
	}
	c.emit("(assert " + t + ")")
}

func (c *Ctx) prelude() {
	c.sortDecls = append(c.sortDecls, "(declare-sort Ref 0)", "(declare-sort Str 0)", "(declare-sort Iface 0)",
		"(declare-datatypes ((Slice 0)) (((mk_slice (sref Ref) (soff Int) (slen Int) (scap Int)))))",
		"(declare-datatypes ((Unit 0)) (((unit))))")
	c.emit("(declare-const null Ref)")
	c.emit("(declare-const nilI Iface)")
	c.emit("(declare-fun strlen (Str) Int)")
	c.emit("(assert (forall ((s Str)) (! (and (>= (strlen s) 0) (<= (strlen s) 9223372036854775807)) :pattern ((strlen s)))))")
	c.emit("(declare-const str_empty Str)")
	c.emit("(assert (= (strlen str_empty) 0))")
	c.emit("(assert (forall ((s Str)) (! (=> (= (strlen s) 0) (= s str_empty)) :pattern ((strlen s)))))")
	// errors
	c.emit("(declare-fun errIs (Iface Iface) Bool)")
	c.emit("(declare-fun isGlobalErr (Iface) Bool)")
	c.emit("(declare-fun gerrId (Iface) Int)")
	c.emit("(declare-fun dynType (Iface) Int)")
	c.emit("(assert (forall ((e Iface)) (! (=> (not (= e nilI)) (errIs e e)) :pattern ((errIs e e)))))")
	c.emit("(assert (forall ((t Iface)) (! (= (errIs nilI t) (= t nilI)) :pattern ((errIs nilI t)))))")
	c.emit("(assert (not (isGlobalErr nilI)))")
	c.emit("(assert (= (dynType nilI) 0))")
	// string ops (axiomatised on demand by users of these symbols)
	c.emit("(declare-fun strcat (Str Str) Str)")
	c.emit("(assert (forall ((a Str) (b Str)) (! (= (strlen (strcat a b)) (+ (strlen a) (strlen b))) :pattern ((strcat a b)))))")
	c.needStrSub()
	// concatenation against indexing and slicing
	c.emit("(assert (forall ((a Str) (b Str) (k Int)) (! (and (=> (and (<= 0 k) (< k (strlen a))) (= (strat (strcat a b) k) (strat a k))) (=> (and (<= (strlen a) k) (< k (+ (strlen a) (strlen b)))) (= (strat (strcat a b) k) (strat b (- k (strlen a)))))) :pattern ((strat (strcat a b) k)))))")
	c.emit("(assert (forall ((a Str) (b Str) (i Int) (j Int)) (! (and (=> (and (<= 0 i) (<= i j) (<= j (strlen a))) (= (strsub (strcat a b) i j) (strsub a i j))) (=> (and (<= (strlen a) i) (<= i j) (<= j (+ (strlen a) (strlen b)))) (= (strsub (strcat a b) i j) (strsub b (- i (strlen a)) (- j (strlen a)))))) :pattern ((strsub (strcat a b) i j)))))")
	c.emit("(assert (forall ((a Str) (b Str) (i Int) (j Int)) (! (=> (and (<= 0 i) (<= i (strlen a)) (<= (strlen a) j) (<= j (+ (strlen a) (strlen b)))) (= (strsub (strcat a b) i j) (strcat (strsub a i (strlen a)) (strsub b 0 (- j (strlen a)))))) :pattern ((strsub (strcat a b) i j)))))")
	c.emit("(assert (forall ((a Str)) (! (and (= (strcat a str_empty) a) (= (strcat str_empty a) a)) :pattern ((strcat a str_empty)) :pattern ((strcat str_empty a)))))")
	c.emit("(assert (forall ((s Str) (i Int)) (! (=> (and (<= 0 i) (<= i (strlen s))) (= (strsub s i i) str_empty)) :pattern ((strsub s i i)))))")
	c.emit("(declare-fun strle (Str Str) Bool)")
	c.emit("(assert (forall ((a Str)) (! (strle a a) :pattern ((strle a a)))))")
	c.emit("(assert (forall ((a Str) (b Str)) (! (or (strle a b) (strle b a)) :pattern ((strle a b)))))")
	c.emit("(assert (forall ((a Str) (b Str)) (! (=> (and (strle a b) (strle b a)) (= a b)) :pattern ((strle a b) (strle b a)))))")
	c.emit("(assert (forall ((a Str) (b Str) (d Str)) (! (=> (and (strle a b) (strle b d)) (strle a d)) :pattern ((strle a b) (strle b d)))))")
	c.emit("(declare-fun f2i (Real) Int)")
	c.emit("(declare-fun i2f (Int) Real)")
}

func (c *Ctx) freshName(prefix string) string {
	c.n++
	return fmt.Sprintf("%s_%d", sanitize(prefix), c.n)
}

func (c *Ctx) fresh(prefix, sort string) Term {
	n := c.freshName(prefix)
	c.emit(fmt.Sprintf("(declare-const %s %s)", n, sort))
	return n
}

func sanitize(s string) string {
	var b strings.Builder
	for _, r := range s {
		if (r >= 'a' && r <= 'z') || (r >= 'A' && r <= 'Z') || (r >= '0' && r <= '9') || r == '_' {
			b.WriteRune(r)
		} else {
			b.WriteByte('_')
		}
	}
	return b.String()
}

// ---------------------------------------------------------------- sorts

func (c *Ctx) sortOf(t types.Type) string {
	switch u := t.(type) {
	case *types.Named:
		if _, ok := u.Underlying().(*types.Struct); ok {
			return c.structSort(u, u.Underlying().(*types.Struct))
		}
		return c.sortOf(u.Underlying())
	case *types.Alias:
		return c.sortOf(types.Unalias(u))
	case *types.Basic:
		switch {
		case u.Info()&types.IsBoolean != 0:
			return "Bool"
		case u.Info()&types.IsInteger != 0:
			return "Int"
		case u.Info()&types.IsString != 0:
			return "Str"
		case u.Info()&types.IsFloat != 0:
			return "Real"
		case u.Kind() == types.UnsafePointer:
			return "Ref"
		case u.Kind() == types.UntypedNil:
			return "Ref"
		}
		return "Int"
	case *types.Pointer, *types.Map, *types.Chan, *types.Signature:
		return "Ref"
	case *types.Interface:
		return "Iface"
	case *types.Slice:
		return "Slice"
	case *types.Struct:
		return c.structSort(nil, u)
	case *types.Array:
		return "(Array Int " + c.sortOf(u.Elem()) + ")"
	case *types.Tuple:
		if u.Len() == 0 {
			return "Unit"
		}
		return "Unit"
	case *types.TypeParam:
		return "Iface"
	}
	return "Iface"
}

func typeKey(t types.Type) string {
	return types.TypeString(t, func(p *types.Package) string { return p.Path() })
}

func (c *Ctx) structSort(named *types.Named, st *types.Struct) string {
	var key string
	if named != nil {
		key = typeKey(named)
	} else {
		key = typeKey(st)
	}
	if n, ok := c.sortName[key]; ok {
		return n
	}
	var name string
	if named != nil {
		pk := ""
		if named.Obj().Pkg() != nil {
			pk = named.Obj().Pkg().Name()
		}
		name = "S_" + sanitize(pk) + "_" + sanitize(named.Obj().Name())
		if named.TypeArgs() != nil && named.TypeArgs().Len() > 0 {
			h := sha1.Sum([]byte(key))
			name += fmt.Sprintf("_%x", h[:3])
		}
	} else {
		h := sha1.Sum([]byte(key))
		name = fmt.Sprintf("S_anon_%x", h[:4])
	}
	for c.usedSorts[name] {
		name += "x"
	}
	c.usedSorts[name] = true
	c.sortName[key] = name
	if st.NumFields() == 0 {
		c.sortDecls = append(c.sortDecls, fmt.Sprintf("(declare-datatypes ((%s 0)) (((mk_%s))))", name, name))
		return name
	}
	var fs []string
	for i := 0; i < st.NumFields(); i++ {
		f := st.Field(i)
		fs = append(fs, fmt.Sprintf("(%s %s)", c.accessor(name, f.Name(), i), c.sortOf(f.Type())))
	}
	c.sortDecls = append(c.sortDecls, fmt.Sprintf("(declare-datatypes ((%s 0)) (((mk_%s %s))))", name, name, strings.Join(fs, " ")))
	return name
}

func (c *Ctx) accessor(sortName, field string, i int) string {
	if field == "_" {
		field = fmt.Sprintf("blank%d", i)
	}
	return sortName + "__" + sanitize(field)
}

func structOf(t types.Type) (*types.Struct, bool) {
	s, ok := t.Underlying().(*types.Struct)
	return s, ok
}

// mkStruct builds a datatype value from field terms.
func (c *Ctx) mkStruct(t types.Type, fields []Term) Term {
	sn := c.sortOf(t)
	if len(fields) == 0 {
		return "mk_" + sn
	}
	return "(mk_" + sn + " " + strings.Join(fields, " ") + ")"
}

func (c *Ctx) fieldOf(t types.Type, v Term, i int) Term {
	st, _ := structOf(t)
	sn := c.sortOf(t)
	return "(" + c.accessor(sn, st.Field(i).Name(), i) + " " + v + ")"
}

func (c *Ctx) updField(t types.Type, v Term, i int, nv Term) Term {
	st, _ := structOf(t)
	fs := make([]Term, st.NumFields())
	for j := range fs {
		if j == i {
			fs[j] = nv
		} else {
			fs[j] = c.fieldOf(t, v, j)
		}
	}
	return c.mkStruct(t, fs)
}

func (c *Ctx) zero(t types.Type) Term {
	switch u := t.Underlying().(type) {
	case *types.Basic:
		switch {
		case u.Info()&types.IsBoolean != 0:
			return "false"
		case u.Info()&types.IsInteger != 0:
			return "0"
		case u.Info()&types.IsString != 0:
			return "str_empty"
		case u.Info()&types.IsFloat != 0:
			return "0.0"
		}
		return "null"
	case *types.Pointer, *types.Map, *types.Chan, *types.Signature:
		return "null"
	case *types.Interface:
		return "nilI"
	case *types.Slice:
		return "(mk_slice null 0 0 0)"
	case *types.Struct:
		fs := make([]Term, u.NumFields())
		for i := range fs {
			fs[i] = c.zero(u.Field(i).Type())
		}
		return c.mkStruct(t, fs)
	case *types.Array:
		return c.constArray("Int", c.sortOf(u.Elem()), c.zero(u.Elem()))
	case *types.Tuple:
		return "unit"
	}
	return "nilI"
}

// intRange returns (lo, hi) bounds for sized integer types, ok=false otherwise.
func intRange(t types.Type) (string, string, bool) {
	b, ok := t.Underlying().(*types.Basic)
	if !ok || b.Info()&types.IsInteger == 0 {
		return "", "", false
	}
	switch b.Kind() {
	case types.Int8:
		return "(- 128)", "127", true
	case types.Int16:
		return "(- 32768)", "32767", true
	case types.Int32:
		return "(- 2147483648)", "2147483647", true
	case types.Int, types.Int64:
		return "(- 9223372036854775808)", "9223372036854775807", true
	case types.Uint8:
		return "0", "255", true
	case types.Uint16:
		return "0", "65535", true
	case types.Uint32:
		return "0", "4294967295", true
	case types.Uint, types.Uint64, types.Uintptr:
		return "0", "18446744073709551615", true
	}
	return "", "", false
}

// typeFacts returns facts that hold for every value of Go type t.
func (c *Ctx) typeFacts(v Term, t types.Type, depth int) []Term {
	var out []Term
	switch u := t.Underlying().(type) {
	case *types.Basic:
		if lo, hi, ok := intRange(t); ok {
			out = append(out, fmt.Sprintf("(and (<= %s %s) (<= %s %s))", lo, v, v, hi))
		}
	case *types.Slice:
		out = append(out, fmt.Sprintf("(and (<= 0 (soff %s)) (<= 0 (slen %s)) (<= (slen %s) (scap %s)) (<= (scap %s) 9223372036854775807) (=> (= (sref %s) null) (= (scap %s) 0)))", v, v, v, v, v, v, v))
	case *types.Struct:
		if depth < 2 {
			for i := 0; i < u.NumFields(); i++ {
				out = append(out, c.typeFacts(c.fieldOf(t, v, i), u.Field(i).Type(), depth+1)...)
			}
		}
	}
	return out
}

// ---------------------------------------------------------------- literals

func (c *Ctx) strLit(s string) Term {
	if s == "" {
		return "str_empty"
	}
	if t, ok := c.strLits[s]; ok {
		return t
	}
	h := sha1.Sum([]byte(s))
	name := fmt.Sprintf("str_%x", h[:5])
	// distinctness from all previous literals
	c.emit(fmt.Sprintf("(declare-const %s Str) ; %q", name, truncate(s, 60)))
	c.emit(fmt.Sprintf("(assert (= (strlen %s) %d))", name, len(s)))
	keys := make([]string, 0, len(c.strLits))
	for k := range c.strLits {
		keys = append(keys, k)
	}
	sort.Strings(keys)
	for _, k := range keys {
		if len(k) == len(s) {
			c.emit(fmt.Sprintf("(assert (not (= %s %s)))", name, c.strLits[k]))
		}
	}
	if len(s) <= 32 {
		for i := 0; i < len(s); i++ {
			c.emit(fmt.Sprintf("(assert (= (strat %s %d) %d))", name, i, s[i]))
		}
	}
	c.strLits[s] = name
	return name
}

func truncate(s string, n int) string {
	s = strings.ReplaceAll(s, "\n", " ")
	if len(s) > n {
		return s[:n] + "..."
	}
	return s
}

func intLit(v string) Term {
	if strings.HasPrefix(v, "-") {
		return "(- " + v[1:] + ")"
	}
	return v
}

// ---------------------------------------------------------------- state

type State struct {
	comps map[string]Term
}

func (s *State) clone() *State {
	n := &State{comps: make(map[string]Term, len(s.comps))}
	for k, v := range s.comps {
		n.comps[k] = v
	}
	return n
}

// comp returns the current term of a component, creating its entry-state
// constant on first use.
func (c *Ctx) comp(s *State, name, sort string) Term {
	if t, ok := s.comps[name]; ok {
		return t
	}
	init, ok := c.compInit[name]
	if !ok {
		if !c.dry && c.pre != nil && !strings.HasPrefix(name, "RV_") {
			if _, known := c.pre[name]; !known {
				c.unsupported("internal: component " + name + " first used after function entry was not seen by the dry run")
			}
		}
		init = sanitize(name) + "_0"
		c.emit(fmt.Sprintf("(declare-const %s %s)", init, sort))
		c.compInit[name] = init
		c.compSort[name] = sort
		if name == "alloc" {
			c.emit("(assert (not (select alloc_0 null)))")
		}
		if strings.HasPrefix(name, "recvd") || strings.HasPrefix(name, "closed") {
			// thread-local event sets start empty
			c.emit("(assert (= " + init + " ((as const (Array Ref Bool)) false)))")
		}
		if name == "held" {
			c.emit("(assert (= " + init + " ((as const (Array Ref Int)) 0)))")
		}
	}
	s.comps[name] = init
	return init
}

func (c *Ctx) setComp(s *State, name string, val Term) {
	sort := c.compSort[name]
	n := c.fresh(name, sort)
	c.assert(fmt.Sprintf("(= %s %s)", n, val))
	s.comps[name] = n
}

func (c *Ctx) havocComp(s *State, name string) {
	sort, ok := c.compSort[name]
	if !ok {
		return
	}
	s.comps[name] = c.fresh(name, sort)
}

// mergeStates creates, for every component on which the incoming states
// differ, a fresh constant constrained per incoming edge.
func (c *Ctx) mergeStates(guards []Term, sts []*State) *State {
	if len(sts) == 1 {
		return sts[0].clone()
	}
	out := &State{comps: map[string]Term{}}
	names := map[string]bool{}
	for _, s := range sts {
		for k := range s.comps {
			names[k] = true
		}
	}
	keys := make([]string, 0, len(names))
	for k := range names {
		keys = append(keys, k)
	}
	sort.Strings(keys)
	for _, k := range keys {
		same := true
		var first Term
		for i, s := range sts {
			t, ok := s.comps[k]
			if !ok {
				t = c.compInit[k]
			}
			if i == 0 {
				first = t
			} else if t != first {
				same = false
			}
		}
		if same {
			out.comps[k] = first
			continue
		}
		n := c.fresh(k, c.compSort[k])
		for i, s := range sts {
			t, ok := s.comps[k]
			if !ok {
				t = c.compInit[k]
			}
			c.assert(fmt.Sprintf("(=> %s (= %s %s))", guards[i], n, t))
		}
		out.comps[k] = n
	}
	return out
}

func and(ts ...Term) Term {
	var xs []Term
	for _, t := range ts {
		if t == "true" || t == "" {
			continue
		}
		if t == "false" {
			return "false"
		}
		xs = append(xs, t)
	}
	if len(xs) == 0 {
		return "true"
	}
	if len(xs) == 1 {
		return xs[0]
	}
	return "(and " + strings.Join(xs, " ") + ")"
}

func or(ts ...Term) Term {
	var xs []Term
	for _, t := range ts {
		if t == "false" || t == "" {
			continue
		}
		if t == "true" {
			return "true"
		}
		xs = append(xs, t)
	}
	if len(xs) == 0 {
		return "false"
	}
	if len(xs) == 1 {
		return xs[0]
	}
	return "(or " + strings.Join(xs, " ") + ")"
}

func not(t Term) Term {
	if t == "true" {
		return "false"
	}
	if t == "false" {
		return "true"
	}
	return "(not " + t + ")"
}

func implies(a, b Term) Term {
	if a == "true" {
		return b
	}
	return "(=> " + a + " " + b + ")"
}

func sel(a Term, idx ...Term) Term {
	for _, i := range idx {
		a = "(select " + a + " " + i + ")"
	}
	return a
}

// storeN builds a nested store a[i0][i1] := v.
func storeN(a Term, idx []Term, v Term) Term {
	if len(idx) == 0 {
		return v
	}
	if len(idx) == 1 {
		return "(store " + a + " " + idx[0] + " " + v + ")"
	}
	inner := storeN("(select "+a+" "+idx[0]+")", idx[1:], v)
	return "(store " + a + " " + idx[0] + " " + inner + ")"
}

// record an obligation
func (c *Ctx) oblige(o *Obligation) {
	if c.dry {
		return
	}
	o.CtxLen = len(c.lines)
	o.Fn = c.fnName
	// obligation names are unique within a function
	base := o.Name
	for i := 2; c.declared["obl:"+o.Name]; i++ {
		o.Name = fmt.Sprintf("%s@%d", base, i)
	}
	c.declared["obl:"+o.Name] = true
	c.obls = append(c.obls, o)
}

func (c *Ctx) unsupported(msg string) {
	for _, u := range c.unsupp {
		if u == msg {
			return
		}
	}
	c.unsupp = append(c.unsupp, msg)
}

// constArray returns an array that maps every index to val. Literal values use
// (as const ...); other values (e.g. null, datatype zero values), which cvc5
// rejects inside `as const`, use a named constant with a quantified definition.
func (c *Ctx) constArray(idxSort, elemSort string, val Term) Term {
	switch val {
	case "true", "false", "0", "0.0":
		return "((as const (Array " + idxSort + " " + elemSort + ")) " + val + ")"
	}
	name := "zarr_" + sanitize(idxSort+"_"+elemSort+"_"+val)
	if len(name) > 100 {
		h := sha1.Sum([]byte(name))
		name = fmt.Sprintf("zarr_%x", h[:6])
	}
	if !c.declared[name] {
		c.declared[name] = true
		c.emit(fmt.Sprintf("(declare-const %s (Array %s %s))", name, idxSort, elemSort))
		c.emit(fmt.Sprintf("(assert (forall ((i %s)) (! (= (select %s i) %s) :pattern ((select %s i)))))", idxSort, name, val, name))
	}
	return name
}

// boxFn returns the name of the injection of Go type t into interface values,
// declaring it (with its inverse and the dynamic-type tag) on first use.
func (c *Ctx) boxFn(t types.Type) string {
	key := typeKey(t)
	fn := "box_" + sanitize(key)
	if len(fn) > 80 {
		fn = fmt.Sprintf("box_t%d", c.typeTag(key))
	}
	if !c.declared[fn] {
		c.declared[fn] = true
		s := c.sortOf(t)
		tag := c.typeTag(key)
		c.emit(fmt.Sprintf("(declare-fun %s (%s) Iface)", fn, s))
		c.emit(fmt.Sprintf("(declare-fun un%s (Iface) %s)", fn, s))
		c.emit(fmt.Sprintf("(assert (forall ((v %s)) (! (and (= (un%s (%s v)) v) (= (dynType (%s v)) %d) (not (= (%s v) nilI))) :pattern ((%s v)))))", s, fn, fn, fn, tag, fn, fn))
		c.emit(fmt.Sprintf("(assert (forall ((x Iface)) (! (=> (= (dynType x) %d) (= (%s (un%s x)) x)) :pattern ((un%s x)))))", tag, fn, fn, fn))
	}
	return fn
}

// fieldPtrFn returns the function mapping an object reference to the address
// of one of its fields; distinct fields yield distinct, non-null addresses.
func (c *Ctx) fieldPtrFn(name string, idxSorts []string) string {
	if !c.declared[name] {
		c.declared[name] = true
		if !c.declared["fpid"] {
			c.declared["fpid"] = true
			c.emit("(declare-fun fpid (Ref) Int)")
			c.emit("(declare-fun fpbase (Ref) Ref)")
		}
		c.emit(fmt.Sprintf("(declare-fun %s (%s) Ref)", name, strings.Join(idxSorts, " ")))
		if len(idxSorts) == 1 {
			id := c.typeTag("fp:" + name)
			c.emit(fmt.Sprintf("(assert (forall ((r Ref)) (! (and (= (fpid (%s r)) %d) (= (fpbase (%s r)) r) (not (= (%s r) null))) :pattern ((%s r)))))", name, id, name, name, name))
		}
	}
	return name
}
