package main

// Contract expression language: Go expressions extended with
//   a ==> b, a <==> b, forall x T, y U :: e, exists x T :: e, old(e),
//   c ? a : b, x in m, T{f: e, ...} (struct literal), set/seq helpers.
// Hand-written Pratt parser so that we control the extensions.

import (
	"fmt"
	"strings"
	"unicode"
)

type Expr interface{ String() string }

type (
	EIdent  struct{ Name string }
	EInt    struct{ V string }
	EStr    struct{ V string }
	EUnary  struct {
		Op string
		X  Expr
	}
	EBinary struct {
		Op   string
		X, Y Expr
	}
	ECall struct {
		Fun  Expr
		Args []Expr
	}
	ESel struct {
		X    Expr
		Name string
	}
	EIndex struct{ X, I Expr }
	ESlice struct{ X, Lo, Hi Expr }
	EQuant struct {
		Forall bool
		Vars   []QVar
		Body   Expr
	}
	ECond struct{ C, A, B Expr }
	EComposite struct {
		Type   *TypeExpr
		Fields []string
		Vals   []Expr
	}
	EStar struct{ X Expr } // *p
)

type QVar struct {
	Name string
	Type *TypeExpr
}

// TypeExpr is a parsed type expression.
type TypeExpr struct {
	Kind string // "name", "ptr", "slice", "map", "set", "array"
	Pkg  string
	Name string
	Elem *TypeExpr
	Key  *TypeExpr
	Args []*TypeExpr // generic instantiation
}

func (t *TypeExpr) String() string {
	switch t.Kind {
	case "ptr":
		return "*" + t.Elem.String()
	case "slice":
		return "[]" + t.Elem.String()
	case "map":
		return "map[" + t.Key.String() + "]" + t.Elem.String()
	case "set":
		return "set[" + t.Elem.String() + "]"
	case "chan":
		return "chan " + t.Elem.String()
	}
	s := t.Name
	if t.Pkg != "" {
		s = t.Pkg + "." + s
	}
	if len(t.Args) > 0 {
		as := []string{}
		for _, a := range t.Args {
			as = append(as, a.String())
		}
		s += "[" + strings.Join(as, ",") + "]"
	}
	return s
}

func (e *EIdent) String() string { return e.Name }
func (e *EInt) String() string   { return e.V }
func (e *EStr) String() string   { return fmt.Sprintf("%q", e.V) }
func (e *EUnary) String() string { return e.Op + e.X.String() }
func (e *EBinary) String() string {
	return "(" + e.X.String() + " " + e.Op + " " + e.Y.String() + ")"
}
func (e *ECall) String() string {
	as := []string{}
	for _, a := range e.Args {
		as = append(as, a.String())
	}
	return e.Fun.String() + "(" + strings.Join(as, ", ") + ")"
}
func (e *ESel) String() string   { return e.X.String() + "." + e.Name }
func (e *EIndex) String() string { return e.X.String() + "[" + e.I.String() + "]" }
func (e *ESlice) String() string {
	lo, hi := "", ""
	if e.Lo != nil {
		lo = e.Lo.String()
	}
	if e.Hi != nil {
		hi = e.Hi.String()
	}
	return e.X.String() + "[" + lo + ":" + hi + "]"
}
func (e *EQuant) String() string {
	q := "exists"
	if e.Forall {
		q = "forall"
	}
	vs := []string{}
	for _, v := range e.Vars {
		vs = append(vs, v.Name+" "+v.Type.String())
	}
	return "(" + q + " " + strings.Join(vs, ", ") + " :: " + e.Body.String() + ")"
}
func (e *ECond) String() string {
	return "(" + e.C.String() + " ? " + e.A.String() + " : " + e.B.String() + ")"
}
func (e *EComposite) String() string {
	fs := []string{}
	for i, f := range e.Fields {
		fs = append(fs, f+": "+e.Vals[i].String())
	}
	return e.Type.String() + "{" + strings.Join(fs, ", ") + "}"
}
func (e *EStar) String() string { return "*" + e.X.String() }

// ---------------------------------------------------------------- lexer

type lexTok struct {
	kind string // "id", "int", "str", "op", "eof"
	s    string
	pos  int
}

func lex(src string) ([]lexTok, error) {
	var toks []lexTok
	i := 0
	for i < len(src) {
		c := src[i]
		switch {
		case c == ' ' || c == '\t' || c == '\n' || c == '\r':
			i++
		case c == '"':
			j := i + 1
			var sb strings.Builder
			for j < len(src) && src[j] != '"' {
				if src[j] == '\\' && j+1 < len(src) {
					switch src[j+1] {
					case 'n':
						sb.WriteByte('\n')
					case 't':
						sb.WriteByte('\t')
					default:
						sb.WriteByte(src[j+1])
					}
					j += 2
					continue
				}
				sb.WriteByte(src[j])
				j++
			}
			if j >= len(src) {
				return nil, fmt.Errorf("unterminated string at %d", i)
			}
			toks = append(toks, lexTok{"str", sb.String(), i})
			i = j + 1
		case unicode.IsDigit(rune(c)):
			j := i
			for j < len(src) && (unicode.IsDigit(rune(src[j])) || src[j] == '_') {
				j++
			}
			toks = append(toks, lexTok{"int", strings.ReplaceAll(src[i:j], "_", ""), i})
			i = j
		case unicode.IsLetter(rune(c)) || c == '_' || c == '$':
			j := i
			for j < len(src) && (unicode.IsLetter(rune(src[j])) || unicode.IsDigit(rune(src[j])) || src[j] == '_' || src[j] == '$') {
				j++
			}
			toks = append(toks, lexTok{"id", src[i:j], i})
			i = j
		default:
			ops := []string{"<==>", "==>", "::", "==", "!=", "<=", ">=", "&&", "||", "++", "+", "-", "*", "/", "%", "<", ">", "!", "(", ")", "[", "]", "{", "}", ",", ".", ":", "?"}
			matched := false
			for _, op := range ops {
				if strings.HasPrefix(src[i:], op) {
					toks = append(toks, lexTok{"op", op, i})
					i += len(op)
					matched = true
					break
				}
			}
			if !matched {
				return nil, fmt.Errorf("unexpected character %q at %d in %q", c, i, src)
			}
		}
	}
	toks = append(toks, lexTok{"eof", "", len(src)})
	return toks, nil
}

// ---------------------------------------------------------------- parser

type parser struct {
	toks []lexTok
	p    int
	src  string
}

func ParseExpr(src string) (e Expr, err error) {
	toks, err := lex(src)
	if err != nil {
		return nil, err
	}
	ps := &parser{toks: toks, src: src}
	defer func() {
		if r := recover(); r != nil {
			if pe, ok := r.(parseErr); ok {
				err = fmt.Errorf("%s in %q", string(pe), src)
				return
			}
			panic(r)
		}
	}()
	e = ps.expr(0)
	if ps.peek().kind != "eof" {
		ps.fail("trailing tokens at %q", ps.peek().s)
	}
	return e, nil
}

func ParseType(src string) (t *TypeExpr, err error) {
	toks, err := lex(src)
	if err != nil {
		return nil, err
	}
	ps := &parser{toks: toks, src: src}
	defer func() {
		if r := recover(); r != nil {
			if pe, ok := r.(parseErr); ok {
				err = fmt.Errorf("%s in %q", string(pe), src)
				return
			}
			panic(r)
		}
	}()
	t = ps.typ()
	if ps.peek().kind != "eof" {
		ps.fail("trailing tokens in type at %q", ps.peek().s)
	}
	return t, nil
}

type parseErr string

func (ps *parser) fail(f string, a ...any) { panic(parseErr(fmt.Sprintf(f, a...))) }
func (ps *parser) peek() lexTok            { return ps.toks[ps.p] }
func (ps *parser) next() lexTok            { t := ps.toks[ps.p]; ps.p++; return t }
func (ps *parser) isOp(s string) bool {
	t := ps.peek()
	return t.kind == "op" && t.s == s
}
func (ps *parser) accept(s string) bool {
	if ps.isOp(s) {
		ps.p++
		return true
	}
	return false
}
func (ps *parser) expect(s string) {
	if !ps.accept(s) {
		ps.fail("expected %q, found %q", s, ps.peek().s)
	}
}

// precedence (low→high): ?: (0) <==> (1) ==> (2, right) || (3) && (4) cmp/in (5) + - ++ (6) * / % (7)
func binPrec(t lexTok) (int, bool) {
	if t.kind == "id" && t.s == "in" {
		return 5, true
	}
	if t.kind != "op" {
		return 0, false
	}
	switch t.s {
	case "<==>":
		return 1, true
	case "==>":
		return 2, true
	case "||":
		return 3, true
	case "&&":
		return 4, true
	case "==", "!=", "<", "<=", ">", ">=":
		return 5, true
	case "+", "-", "++":
		return 6, true
	case "*", "/", "%":
		return 7, true
	}
	return 0, false
}

func (ps *parser) expr(minPrec int) Expr {
	// quantifiers extend as far as possible
	if t := ps.peek(); t.kind == "id" && (t.s == "forall" || t.s == "exists") {
		return ps.quant()
	}
	lhs := ps.unary()
	for {
		t := ps.peek()
		if t.kind == "op" && t.s == "?" && minPrec <= 0 {
			ps.next()
			a := ps.expr(1)
			ps.expect(":")
			b := ps.expr(0)
			lhs = &ECond{lhs, a, b}
			continue
		}
		prec, ok := binPrec(t)
		if !ok || prec < minPrec {
			return lhs
		}
		ps.next()
		var rhs Expr
		if t.s == "==>" {
			rhs = ps.expr(prec) // right assoc
		} else {
			rhs = ps.expr(prec + 1)
		}
		lhs = &EBinary{t.s, lhs, rhs}
	}
}

func (ps *parser) quant() Expr {
	t := ps.next()
	q := &EQuant{Forall: t.s == "forall"}
	for {
		var names []string
		names = append(names, ps.ident())
		for ps.accept(",") {
			names = append(names, ps.ident())
		}
		ty := ps.typ()
		for _, n := range names {
			q.Vars = append(q.Vars, QVar{n, ty})
		}
		if ps.accept(";") || ps.accept(",") {
			continue
		}
		break
	}
	ps.expect("::")
	q.Body = ps.expr(0)
	return q
}

func (ps *parser) ident() string {
	t := ps.next()
	if t.kind != "id" {
		ps.fail("expected identifier, found %q", t.s)
	}
	return t.s
}

func (ps *parser) typ() *TypeExpr {
	if ps.accept("*") {
		return &TypeExpr{Kind: "ptr", Elem: ps.typ()}
	}
	if ps.accept("[") {
		ps.expect("]")
		return &TypeExpr{Kind: "slice", Elem: ps.typ()}
	}
	name := ps.ident()
	if name == "map" {
		ps.expect("[")
		k := ps.typ()
		ps.expect("]")
		return &TypeExpr{Kind: "map", Key: k, Elem: ps.typ()}
	}
	if name == "chan" {
		return &TypeExpr{Kind: "chan", Elem: ps.typ()}
	}
	if name == "set" && ps.isOp("[") {
		ps.expect("[")
		k := ps.typ()
		ps.expect("]")
		return &TypeExpr{Kind: "set", Elem: k}
	}
	te := &TypeExpr{Kind: "name", Name: name}
	if ps.isOp(".") && ps.toks[ps.p+1].kind == "id" {
		ps.next()
		te.Pkg = name
		te.Name = ps.ident()
	}
	if ps.isOp("[") && ps.toks[ps.p+1].kind == "id" {
		// generic instantiation Name[T]
		save := ps.p
		ps.next()
		ok := true
		func() {
			defer func() {
				if r := recover(); r != nil {
					ok = false
				}
			}()
			te.Args = append(te.Args, ps.typ())
			for ps.accept(",") {
				te.Args = append(te.Args, ps.typ())
			}
			ps.expect("]")
		}()
		if !ok {
			ps.p = save
			te.Args = nil
		}
	}
	return te
}

func (ps *parser) unary() Expr {
	t := ps.peek()
	if t.kind == "op" {
		switch t.s {
		case "!":
			ps.next()
			return &EUnary{"!", ps.unary()}
		case "-":
			ps.next()
			return &EUnary{"-", ps.unary()}
		case "*":
			ps.next()
			return &EStar{ps.unary()}
		}
	}
	return ps.postfix(ps.primary())
}

func (ps *parser) primary() Expr {
	t := ps.next()
	switch t.kind {
	case "int":
		return &EInt{t.s}
	case "str":
		return &EStr{t.s}
	case "id":
		return &EIdent{t.s}
	case "op":
		if t.s == "(" {
			e := ps.expr(0)
			ps.expect(")")
			return e
		}
	}
	ps.fail("unexpected token %q", t.s)
	return nil
}

func exprToType(e Expr) *TypeExpr {
	switch x := e.(type) {
	case *EIdent:
		return &TypeExpr{Kind: "name", Name: x.Name}
	case *ESel:
		if id, ok := x.X.(*EIdent); ok {
			return &TypeExpr{Kind: "name", Pkg: id.Name, Name: x.Name}
		}
	}
	return nil
}

func (ps *parser) postfix(e Expr) Expr {
	for {
		switch {
		case ps.accept("."):
			e = &ESel{e, ps.ident()}
		case ps.isOp("("):
			ps.next()
			var args []Expr
			if !ps.isOp(")") {
				args = append(args, ps.expr(0))
				for ps.accept(",") {
					args = append(args, ps.expr(0))
				}
			}
			ps.expect(")")
			e = &ECall{e, args}
		case ps.isOp("["):
			ps.next()
			var lo, hi Expr
			if ps.isOp(":") {
				ps.next()
				if !ps.isOp("]") {
					hi = ps.expr(0)
				}
				ps.expect("]")
				e = &ESlice{e, nil, hi}
				continue
			}
			lo = ps.expr(0)
			if ps.accept(":") {
				if !ps.isOp("]") {
					hi = ps.expr(0)
				}
				ps.expect("]")
				e = &ESlice{e, lo, hi}
				continue
			}
			ps.expect("]")
			e = &EIndex{e, lo}
		case ps.isOp("{"):
			te := exprToType(e)
			if te == nil {
				return e
			}
			ps.next()
			c := &EComposite{Type: te}
			for !ps.isOp("}") {
				c.Fields = append(c.Fields, ps.ident())
				ps.expect(":")
				c.Vals = append(c.Vals, ps.expr(0))
				if !ps.accept(",") {
					break
				}
			}
			ps.expect("}")
			e = c
		default:
			return e
		}
	}
}
