package main

// Translation of contract expressions to SMT terms in a given state.

import (
	"fmt"
	"go/constant"
	"go/types"
	"strings"

	"golang.org/x/tools/go/ssa"
)

type TV struct {
	T       Term
	Ty      types.Type // Go type (nil for spec-only values)
	SetElem types.Type // non-nil: value is a set of this element type (Array elem Bool)
	IsNil   bool
	IsPkg   string // import path when the expression names a package
	Untyped bool
}

type Env struct {
	c     *Ctx
	fr    *Frame
	at    *ssa.BasicBlock
	subst map[ssa.Value]Term
	bind  map[string]TV
	st    *State
	old   *State
	file  *SpecFile
	pkg   *types.Package
	fc    *FuncContract
	depth int
	next  *Env // back-edge values (for `next.x` in loop ghost updates)
	cur   *State // the non-old state while translating inside old(...)
	loopHead *ssa.BasicBlock // loop header for $i / $visited when `at` is not the header
	atStart  bool            // evaluation point is the start of block `at` (loop head)
	lax      bool            // postconditions: a local not defined on this path is an arbitrary value
}

type transErr string

func tfail(f string, a ...any) { panic(transErr(fmt.Sprintf(f, a...))) }

// Translate returns an SMT term of sort Bool for a clause.
func (e *Env) Bool(x Expr) (t Term, err error) {
	defer func() {
		if r := recover(); r != nil {
			if te, ok := r.(transErr); ok {
				err = fmt.Errorf("%s", string(te))
				return
			}
			panic(r)
		}
	}()
	tv := e.tr(x)
	if e.c.sortOfTV(tv) != "Bool" {
		tfail("expression %s is not boolean", x.String())
	}
	return tv.T, nil
}

func (e *Env) Value(x Expr) (tv TV, err error) {
	defer func() {
		if r := recover(); r != nil {
			if te, ok := r.(transErr); ok {
				err = fmt.Errorf("%s", string(te))
				return
			}
			panic(r)
		}
	}()
	return e.tr(x), nil
}

func (c *Ctx) sortOfTV(tv TV) string {
	if tv.SetElem != nil {
		return "(Array " + c.sortOf(tv.SetElem) + " Bool)"
	}
	if tv.Ty == nil {
		return "?"
	}
	return c.sortOf(tv.Ty)
}

func (e *Env) with(st *State) *Env {
	n := *e
	n.st = st
	return &n
}

func (e *Env) resolveType(te *TypeExpr) (types.Type, types.Type) {
	// returns (goType, setElem)
	switch te.Kind {
	case "ptr":
		t, _ := e.resolveType(te.Elem)
		return types.NewPointer(t), nil
	case "slice":
		t, _ := e.resolveType(te.Elem)
		return types.NewSlice(t), nil
	case "map":
		k, _ := e.resolveType(te.Key)
		v, _ := e.resolveType(te.Elem)
		return types.NewMap(k, v), nil
	case "set":
		t, _ := e.resolveType(te.Elem)
		return nil, t
	case "chan":
		t, _ := e.resolveType(te.Elem)
		return types.NewChan(types.SendRecv, t), nil
	}
	if te.Pkg == "" {
		switch te.Name {
		case "int":
			return types.Typ[types.Int], nil
		case "int64":
			return types.Typ[types.Int64], nil
		case "int32":
			return types.Typ[types.Int32], nil
		case "uint64":
			return types.Typ[types.Uint64], nil
		case "byte":
			return types.Typ[types.Uint8], nil
		case "bool":
			return types.Typ[types.Bool], nil
		case "string":
			return types.Typ[types.String], nil
		case "float64":
			return types.Typ[types.Float64], nil
		case "error":
			return types.Universe.Lookup("error").Type(), nil
		case "any":
			return types.NewInterfaceType(nil, nil), nil
		case "ref":
			return types.Typ[types.UnsafePointer], nil
		case "unit":
			return types.NewStruct(nil, nil), nil
		case "rochanunit":
			return types.NewChan(types.RecvOnly, types.NewStruct(nil, nil)), nil
		case "chanunit":
			return types.NewChan(types.SendRecv, types.NewStruct(nil, nil)), nil
		case "mathint":
			return types.Typ[types.UntypedInt], nil
		}
		if e.pkg != nil {
			if o := e.pkg.Scope().Lookup(te.Name); o != nil {
				if tn, ok := o.(*types.TypeName); ok {
					return e.instantiate(tn.Type(), te), nil
				}
			}
		}
		tfail("unknown type %s", te.String())
	}
	ip, ok := e.file.Imports[te.Pkg]
	if !ok {
		tfail("unknown package %s in type %s", te.Pkg, te.String())
	}
	tp := e.c.P.typesPkg(ip)
	if tp == nil {
		tfail("package %s not loaded", ip)
	}
	o := tp.Scope().Lookup(te.Name)
	if tn, ok := o.(*types.TypeName); ok {
		return e.instantiate(tn.Type(), te), nil
	}
	tfail("unknown type %s", te.String())
	return nil, nil
}

func (e *Env) instantiate(t types.Type, te *TypeExpr) types.Type {
	if len(te.Args) == 0 {
		return t
	}
	var targs []types.Type
	for _, a := range te.Args {
		g, _ := e.resolveType(a)
		targs = append(targs, g)
	}
	inst, err := types.Instantiate(nil, t, targs, false)
	if err != nil {
		tfail("cannot instantiate %s: %v", te.String(), err)
	}
	return inst
}

func deref(t types.Type) (types.Type, bool) {
	if p, ok := t.Underlying().(*types.Pointer); ok {
		return p.Elem(), true
	}
	return t, false
}

func (e *Env) tr(x Expr) TV {
	c := e.c
	switch x := x.(type) {
	case *EInt:
		return TV{T: x.V, Ty: types.Typ[types.Int], Untyped: true}
	case *EStr:
		return TV{T: c.strLit(x.V), Ty: types.Typ[types.String]}
	case *EIdent:
		return e.ident(x.Name)
	case *EUnary:
		v := e.tr(x.X)
		switch x.Op {
		case "!":
			return TV{T: not(v.T), Ty: types.Typ[types.Bool]}
		case "-":
			return TV{T: "(- " + v.T + ")", Ty: v.Ty, Untyped: v.Untyped}
		}
	case *EStar:
		v := e.tr(x.X)
		el, ok := deref(v.Ty)
		if !ok {
			tfail("cannot dereference %s", x.X.String())
		}
		return TV{T: e.loadPtr(v.T, el), Ty: el}
	case *EBinary:
		return e.binary(x)
	case *ECond:
		cnd := e.tr(x.C)
		a := e.tr(x.A)
		b := e.tr(x.B)
		a, b = e.unifyNil(a, b)
		return TV{T: "(ite " + cnd.T + " " + a.T + " " + b.T + ")", Ty: a.Ty, SetElem: a.SetElem}
	case *EQuant:
		ne := *e
		ne.bind = map[string]TV{}
		for k, v := range e.bind {
			ne.bind[k] = v
		}
		var bs []string
		var facts []Term
		for _, v := range x.Vars {
			gt, se := e.resolveType(v.Type)
			if se != nil {
				tfail("set-typed quantifier variable")
			}
			nm := "q_" + sanitize(v.Name) + "_" + fmt.Sprint(e.depth)
			bs = append(bs, "("+nm+" "+c.sortOf(gt)+")")
			ne.bind[v.Name] = TV{T: nm, Ty: gt}
			if _, isStruct := structOf(gt); v.Type.Name != "mathint" && !isStruct {
				facts = append(facts, c.typeFacts(nm, gt, 1)...)
			}
		}
		ne.depth = e.depth + 1
		body := ne.tr(x.Body)
		q := "exists"
		bt := body.T
		if x.Forall {
			q = "forall"
			if len(facts) > 0 {
				bt = implies(and(facts...), bt)
			}
		} else if len(facts) > 0 {
			bt = and(append(facts, bt)...)
		}
		return TV{T: "(" + q + " (" + strings.Join(bs, " ") + ") " + bt + ")", Ty: types.Typ[types.Bool]}
	case *ESel:
		return e.selector(x)
	case *EIndex:
		base := e.tr(x.X)
		idx := e.tr(x.I)
		if base.SetElem != nil {
			return TV{T: sel(base.T, idx.T), Ty: types.Typ[types.Bool]}
		}
		switch u := base.Ty.Underlying().(type) {
		case *types.Slice:
			comp := c.comp(e.st, elemComp(c, u.Elem()), "(Array Ref (Array Int "+c.sortOf(u.Elem())+"))")
			return TV{T: sel(comp, "(sref "+base.T+")", "(+ (soff "+base.T+") "+idx.T+")"), Ty: u.Elem()}
		case *types.Map:
			_, mv, _ := mapComps(c, u)
			comp := c.comp(e.st, mv, "(Array Ref (Array "+c.sortOf(u.Key())+" "+c.sortOf(u.Elem())+"))")
			return TV{T: sel(comp, base.T, idx.T), Ty: u.Elem()}
		case *types.Array:
			return TV{T: sel(base.T, idx.T), Ty: u.Elem()}
		case *types.Pointer:
			if a, ok := u.Elem().Underlying().(*types.Array); ok {
				comp := c.comp(e.st, elemComp(c, a.Elem()), "(Array Ref (Array Int "+c.sortOf(a.Elem())+"))")
				return TV{T: sel(comp, base.T, idx.T), Ty: a.Elem()}
			}
		}
		tfail("cannot index %s", x.X.String())
	case *ESlice:
		base := e.tr(x.X)
		if _, ok := base.Ty.Underlying().(*types.Slice); !ok {
			tfail("cannot slice %s", x.X.String())
		}
		lo := "0"
		if x.Lo != nil {
			lo = e.tr(x.Lo).T
		}
		hi := "(slen " + base.T + ")"
		if x.Hi != nil {
			hi = e.tr(x.Hi).T
		}
		return TV{T: fmt.Sprintf("(mk_slice (sref %s) (+ (soff %s) %s) (- %s %s) (- (scap %s) %s))", base.T, base.T, lo, hi, lo, base.T, lo), Ty: base.Ty}
	case *EComposite:
		gt, _ := e.resolveType(x.Type)
		st, ok := structOf(gt)
		if !ok {
			tfail("composite literal of non-struct %s", x.Type.String())
		}
		fs := make([]Term, st.NumFields())
		for i := range fs {
			fs[i] = c.zero(st.Field(i).Type())
		}
		for k, fn := range x.Fields {
			found := false
			for i := 0; i < st.NumFields(); i++ {
				if st.Field(i).Name() == fn {
					v := e.tr(x.Vals[k])
					v = e.coerceNil(v, st.Field(i).Type())
					fs[i] = v.T
					found = true
				}
			}
			if !found {
				tfail("no field %s in %s", fn, x.Type.String())
			}
		}
		return TV{T: c.mkStruct(gt, fs), Ty: gt}
	case *ECall:
		return e.call(x)
	}
	tfail("unsupported expression %s", x.String())
	return TV{}
}

func elemComp(c *Ctx, elem types.Type) string { return "E_" + sanitize(c.sortOf(elem)) }

func mapComps(c *Ctx, m *types.Map) (md, mv, ml string) {
	k := sanitize(c.sortOf(m.Key())) + "_" + sanitize(c.sortOf(m.Elem()))
	return "MD_" + k, "MV_" + k, "ML_" + k
}

func (e *Env) coerceNil(v TV, to types.Type) TV {
	if !v.IsNil {
		return v
	}
	return TV{T: e.c.zero(to), Ty: to}
}

func (e *Env) unifyNil(a, b TV) (TV, TV) {
	if a.IsNil && !b.IsNil && b.Ty != nil {
		a = e.coerceNil(a, b.Ty)
	}
	if b.IsNil && !a.IsNil && a.Ty != nil {
		b = e.coerceNil(b, a.Ty)
	}
	return a, b
}

func (e *Env) loadPtr(p Term, el types.Type) Term {
	c := e.c
	if st, ok := structOf(el); ok {
		fs := make([]Term, st.NumFields())
		for i := range fs {
			comp := c.comp(e.st, fieldComp(el, i), "(Array Ref "+c.sortOf(st.Field(i).Type())+")")
			fs[i] = sel(comp, p)
		}
		return c.mkStruct(el, fs)
	}
	comp := c.comp(e.st, cellComp(c, el), "(Array Ref "+c.sortOf(el)+")")
	return sel(comp, p)
}

func fieldComp(structT types.Type, i int) string {
	st, _ := structOf(structT)
	name := typeKey(structT)
	if n, ok := structT.(*types.Named); ok {
		pk := ""
		if n.Obj().Pkg() != nil {
			pk = n.Obj().Pkg().Name()
		}
		name = pk + "_" + n.Obj().Name()
		if n.TypeArgs() != nil && n.TypeArgs().Len() > 0 {
			// instances of a generic struct share the field components of the generic type (so
			// that contracts written against `Merge.items` speak about every instance), except for
			// fields whose type is a bare type parameter: their sort differs per instance
			if ost, ok := n.Origin().Underlying().(*types.Struct); ok && i < ost.NumFields() {
				if _, bare := ost.Field(i).Type().(*types.TypeParam); bare {
					name += "_" + sanitize(typeKey(n))
				}
			}
		}
	}
	return "F_" + sanitize(name) + "_" + sanitize(st.Field(i).Name())
}

func cellComp(c *Ctx, t types.Type) string { return "Cell_" + sanitize(c.sortOf(t)) }

func (e *Env) ident(name string) TV {
	c := e.c
	if tv, ok := e.bind[name]; ok {
		return tv
	}
	switch name {
	case "true", "false":
		return TV{T: name, Ty: types.Typ[types.Bool]}
	case "nil":
		return TV{IsNil: true, T: "?nil"}
	}
	if e.fc != nil {
		for _, l := range e.fc.Lets {
			if l.Name == name {
				return e.tr(l.E)
			}
		}
	}
	if e.fr != nil {
		if tv, ok := e.fr.lookupName(name, e); ok {
			return tv
		}
	}
	if g, ok := c.P.Specs.Ghosts[name]; ok && len(g.Params) == 0 {
		return e.ghostRead(g, nil)
	}
	if p, ok := c.P.Specs.Pures[name]; ok && len(p.Params) == 0 {
		return e.pureCall(p, nil)
	}
	if e.file != nil {
		if ip, ok := e.file.Imports[name]; ok {
			return TV{IsPkg: ip}
		}
	}
	if e.pkg != nil {
		if o := e.pkg.Scope().Lookup(name); o != nil {
			return e.object(o)
		}
	}
	if e.lax && e.fr != nil {
		// a local variable of the function that has no value at this return statement: the
		// clause has to hold for every value (it normally sits under a guard that is false here)
		if ty := e.fr.localType(name); ty != nil {
			key := "lax:" + name
			if tv, ok := e.bind[key]; ok {
				return tv
			}
			tv := TV{T: c.fresh("undef_"+sanitize(name), c.sortOf(ty)), Ty: ty}
			e.bind[key] = tv
			return tv
		}
	}
	tfail("unknown identifier %q", name)
	return TV{}
}

func (e *Env) object(o types.Object) TV {
	c := e.c
	switch o := o.(type) {
	case *types.Const:
		return c.constTV(o.Val(), o.Type())
	case *types.Var:
		return TV{T: c.globalTerm(o.Pkg().Path(), o.Name(), o.Type()), Ty: o.Type()}
	}
	tfail("unsupported object %s", o.Name())
	return TV{}
}

func (c *Ctx) constTV(v constant.Value, t types.Type) TV {
	switch v.Kind() {
	case constant.Bool:
		if constant.BoolVal(v) {
			return TV{T: "true", Ty: t}
		}
		return TV{T: "false", Ty: t}
	case constant.String:
		return TV{T: c.strLit(constant.StringVal(v)), Ty: t}
	case constant.Int:
		return TV{T: intLit(v.ExactString()), Ty: t}
	case constant.Float:
		f, _ := constant.Float64Val(v)
		s := fmt.Sprintf("%.17f", f)
		if f < 0 {
			s = fmt.Sprintf("(- %.17f)", -f)
		}
		return TV{T: s, Ty: t}
	}
	tfail("unsupported constant kind")
	return TV{}
}

// globalTerm returns the constant standing for an immutable package-level
// variable.
func (c *Ctx) globalTerm(pkgPath, name string, t types.Type) Term {
	key := pkgPath + "." + name
	if g, ok := c.globals[key]; ok {
		return g
	}
	parts := strings.Split(pkgPath, "/")
	n := "g_" + sanitize(parts[len(parts)-1]) + "_" + sanitize(name)
	for c.declared[n] {
		n += "x"
	}
	c.declared[n] = true
	c.emit(fmt.Sprintf("(declare-const %s %s)", n, c.sortOf(t)))
	if c.sortOf(t) == "Iface" && types.Identical(t, types.Universe.Lookup("error").Type()) {
		c.emit(fmt.Sprintf("(assert (and (not (= %s nilI)) (isGlobalErr %s) (= (gerrId %s) %d)))", n, n, n, len(c.globals)+1))
		c.assumed["package-level error variables are non-nil, pairwise distinct and never reassigned"] = true
		if c.P.plainErr[key] {
			c.emit(fmt.Sprintf("(assert (forall ((t Iface)) (! (= (errIs %s t) (= %s t)) :pattern ((errIs %s t)))))", n, n, n))
		}
	}
	c.globals[key] = n
	return n
}

func (e *Env) selector(x *ESel) TV {
	c := e.c
	if id, ok := x.X.(*EIdent); ok {
		if id.Name == "ghost" {
			g, ok := c.P.Specs.Ghosts[x.Name]
			if !ok {
				tfail("unknown ghost %s", x.Name)
			}
			if len(g.Params) == 0 {
				return e.ghostRead(g, nil)
			}
			tfail("ghost %s needs arguments", x.Name)
		}
		if id.Name == "next" {
			if e.next == nil {
				tfail("next.%s is only available in `loop k backedge set`", x.Name)
			}
			return e.next.ident(x.Name)
		}
		if id.Name == "args" {
			if tv, ok := e.bind["args."+x.Name]; ok {
				return tv
			}
			tfail("no call argument named %s", x.Name)
		}
	}
	base := e.tr(x.X)
	if base.IsPkg != "" {
		tp := c.P.typesPkg(base.IsPkg)
		if tp == nil {
			tfail("package %s not loaded", base.IsPkg)
		}
		o := tp.Scope().Lookup(x.Name)
		if o == nil {
			tfail("no %s in package %s", x.Name, base.IsPkg)
		}
		return e.object(o)
	}
	if base.Ty == nil {
		tfail("cannot select %s from %s", x.Name, x.X.String())
	}
	obj, index, _ := types.LookupFieldOrMethod(base.Ty, true, nil, x.Name)
	if obj == nil && e.pkg != nil {
		obj, index, _ = types.LookupFieldOrMethod(base.Ty, true, e.pkg, x.Name)
	}
	if obj == nil {
		// unexported field of another package: search manually
		index = findField(base.Ty, x.Name)
		if index == nil {
			tfail("no field %s in %s", x.Name, base.Ty.String())
		}
	}
	cur := base
	for _, i := range index {
		t := cur.Ty
		if el, ok := deref(t); ok {
			st, ok := structOf(el)
			if !ok {
				tfail("selector through non-struct pointer")
			}
			comp := c.comp(e.st, fieldComp(el, i), "(Array Ref "+c.sortOf(st.Field(i).Type())+")")
			cur = TV{T: sel(comp, cur.T), Ty: st.Field(i).Type()}
		} else {
			st, ok := structOf(t)
			if !ok {
				tfail("selector on non-struct %s", t.String())
			}
			cur = TV{T: c.fieldOf(t, cur.T, i), Ty: st.Field(i).Type()}
		}
	}
	return cur
}

func findField(t types.Type, name string) []int {
	if el, ok := deref(t); ok {
		t = el
	}
	st, ok := structOf(t)
	if !ok {
		return nil
	}
	for i := 0; i < st.NumFields(); i++ {
		if st.Field(i).Name() == name {
			return []int{i}
		}
	}
	for i := 0; i < st.NumFields(); i++ {
		if st.Field(i).Embedded() {
			if p := findField(st.Field(i).Type(), name); p != nil {
				return append([]int{i}, p...)
			}
		}
	}
	return nil
}

func (e *Env) binary(x *EBinary) TV {
	c := e.c
	B := types.Typ[types.Bool]
	switch x.Op {
	case "==>":
		return TV{T: implies(e.tr(x.X).T, e.tr(x.Y).T), Ty: B}
	case "<==>":
		return TV{T: "(= " + e.tr(x.X).T + " " + e.tr(x.Y).T + ")", Ty: B}
	case "&&":
		return TV{T: and(e.tr(x.X).T, e.tr(x.Y).T), Ty: B}
	case "||":
		return TV{T: or(e.tr(x.X).T, e.tr(x.Y).T), Ty: B}
	case "in":
		k := e.tr(x.X)
		m := e.tr(x.Y)
		if m.SetElem != nil {
			return TV{T: sel(m.T, k.T), Ty: B}
		}
		if mt, ok := m.Ty.Underlying().(*types.Map); ok {
			md, _, _ := mapComps(c, mt)
			comp := c.comp(e.st, md, "(Array Ref (Array "+c.sortOf(mt.Key())+" Bool))")
			return TV{T: "(and (not (= " + m.T + " null)) " + sel(comp, m.T, k.T) + ")", Ty: B}
		}
		tfail("'in' needs a map or set on the right: %s", x.Y.String())
	}
	a := e.tr(x.X)
	b := e.tr(x.Y)
	switch x.Op {
	case "==", "!=":
		var t Term
		switch {
		case a.IsNil && b.IsNil:
			t = "true"
		case a.IsNil || b.IsNil:
			v := a
			if a.IsNil {
				v = b
			}
			switch c.sortOfTV(v) {
			case "Ref":
				t = "(= " + v.T + " null)"
			case "Iface":
				t = "(= " + v.T + " nilI)"
			case "Slice":
				t = "(= (sref " + v.T + ") null)"
			default:
				tfail("nil comparison with %s", c.sortOfTV(v))
			}
		default:
			if sa, sb := c.sortOfTV(a), c.sortOfTV(b); sa != sb {
				tfail("comparison of different sorts %s and %s in %s", sa, sb, x.String())
			}
			t = "(= " + a.T + " " + b.T + ")"
		}
		if x.Op == "!=" {
			t = not(t)
		}
		return TV{T: t, Ty: B}
	case "<", "<=", ">", ">=":
		if c.sortOfTV(a) == "Str" {
			switch x.Op {
			case "<=":
				return TV{T: "(strle " + a.T + " " + b.T + ")", Ty: B}
			case "<":
				return TV{T: "(and (strle " + a.T + " " + b.T + ") (not (= " + a.T + " " + b.T + ")))", Ty: B}
			case ">=":
				return TV{T: "(strle " + b.T + " " + a.T + ")", Ty: B}
			case ">":
				return TV{T: "(and (strle " + b.T + " " + a.T + ") (not (= " + a.T + " " + b.T + ")))", Ty: B}
			}
		}
		return TV{T: "(" + x.Op + " " + a.T + " " + b.T + ")", Ty: B}
	case "+", "-", "*":
		if x.Op == "+" && c.sortOfTV(a) == "Str" {
			return TV{T: "(strcat " + a.T + " " + b.T + ")", Ty: a.Ty}
		}
		ty := a.Ty
		if a.Untyped {
			ty = b.Ty
		}
		return TV{T: "(" + x.Op + " " + a.T + " " + b.T + ")", Ty: ty, Untyped: a.Untyped && b.Untyped}
	case "/":
		return TV{T: "(div " + a.T + " " + b.T + ")", Ty: a.Ty}
	case "%":
		return TV{T: "(mod " + a.T + " " + b.T + ")", Ty: a.Ty}
	}
	tfail("unsupported operator %s", x.Op)
	return TV{}
}

func (e *Env) call(x *ECall) TV {
	c := e.c
	B := types.Typ[types.Bool]
	name := ""
	switch f := x.Fun.(type) {
	case *EIdent:
		name = f.Name
	case *ESel:
		if id, ok := f.X.(*EIdent); ok {
			if id.Name == "ghost" {
				name = f.Name
			} else {
				name = id.Name + "." + f.Name
			}
		}
	}
	if name == "" {
		tfail("unsupported call %s", x.String())
	}
	arg := func(i int) TV {
		if i >= len(x.Args) {
			tfail("%s: missing argument %d", name, i)
		}
		return e.tr(x.Args[i])
	}
	switch name {
	case "old":
		if e.old == nil {
			tfail("old() not available here")
		}
		ne := e.with(e.old)
		if e.cur == nil {
			ne.cur = e.st
		}
		return ne.tr(x.Args[0])
	case "now": // inside old(...): evaluate in the current state again
		if e.cur == nil {
			tfail("now() is only meaningful inside old()")
		}
		ne := e.with(e.cur)
		ne.cur = nil
		return ne.tr(x.Args[0])
	case "len":
		v := arg(0)
		switch u := v.Ty.Underlying().(type) {
		case *types.Slice:
			return TV{T: "(slen " + v.T + ")", Ty: types.Typ[types.Int]}
		case *types.Basic:
			return TV{T: "(strlen " + v.T + ")", Ty: types.Typ[types.Int]}
		case *types.Map:
			_, _, ml := mapComps(c, u)
			comp := c.comp(e.st, ml, "(Array Ref Int)")
			c.lenAxioms(e.st, u, v.T)
			return TV{T: "(ite (= " + v.T + " null) 0 " + sel(comp, v.T) + ")", Ty: types.Typ[types.Int]}
		case *types.Array:
			return TV{T: fmt.Sprint(u.Len()), Ty: types.Typ[types.Int]}
		}
		tfail("len of %s", v.Ty.String())
	case "cap":
		v := arg(0)
		return TV{T: "(scap " + v.T + ")", Ty: types.Typ[types.Int]}
	case "errIs", "errors.Is":
		return TV{T: "(errIs " + arg(0).T + " " + e.coerceNil(arg(1), types.Universe.Lookup("error").Type()).T + ")", Ty: B}
	case "isGlobalErr":
		return TV{T: "(isGlobalErr " + arg(0).T + ")", Ty: B}
	case "add": // add(set, x)
		s := arg(0)
		return TV{T: "(store " + s.T + " " + arg(1).T + " true)", SetElem: s.SetElem}
	case "remove":
		s := arg(0)
		return TV{T: "(store " + s.T + " " + arg(1).T + " false)", SetElem: s.SetElem}
	case "keys": // keys(m): domain of a map as a set
		m := arg(0)
		mt, ok := m.Ty.Underlying().(*types.Map)
		if !ok {
			tfail("keys of non-map")
		}
		md, _, _ := mapComps(c, mt)
		comp := c.comp(e.st, md, "(Array Ref (Array "+c.sortOf(mt.Key())+" Bool))")
		return TV{T: sel(comp, m.T), SetElem: mt.Key()}
	case "bitand": // bitand(a, b): Go's a & b on integers (uninterpreted, the same symbol the code uses)
		if !c.declared["bitop_and"] {
			c.declared["bitop_and"] = true
			c.emit("(declare-fun bitop_and (Int Int) Int)")
		}
		return TV{T: "(bitop_and " + arg(0).T + " " + arg(1).T + ")", Ty: types.Typ[types.Int]}
	case "sameArray": // sameArray(s, t): the two slices share a backing array
		return TV{T: "(= (sref " + arg(0).T + ") (sref " + arg(1).T + "))", Ty: B}
	case "alive": // alive(ref): allocated
		comp := c.comp(e.st, "alloc", "(Array Ref Bool)")
		av := arg(0)
		if c.sortOfTV(av) == "Slice" {
			return TV{T: sel(comp, "(sref "+av.T+")"), Ty: B}
		}
		if c.sortOfTV(av) != "Ref" {
			tfail("alive() of a value that is not a reference")
		}
		return TV{T: sel(comp, av.T), Ty: B}
	case "typeIs": // typeIs(iface, T)
		v := arg(0)
		gt := e.exprType(x.Args[1])
		return TV{T: fmt.Sprintf("(= (dynType %s) %d)", v.T, c.typeTag(typeKey(gt))), Ty: B}
	case "implements": // implements(iface, I): the dynamic type implements interface I
		v := arg(0)
		gt := e.exprType(x.Args[1])
		fn := fmt.Sprintf("impl_t%d", c.typeTag("iface:"+typeKey(gt)))
		if !c.declared[fn] {
			c.declared[fn] = true
			c.emit("(declare-fun " + fn + " (Int) Bool)")
			c.emit("(assert (not (" + fn + " 0)))")
		}
		return TV{T: "(" + fn + " (dynType " + v.T + "))", Ty: B}
	case "as": // as(iface, T): the dynamic value, meaningful when typeIs(iface, T)
		v := arg(0)
		gt := e.exprType(x.Args[1])
		fn := c.boxFn(gt)
		return TV{T: "(un" + fn + " " + v.T + ")", Ty: gt}
	case "box": // box(v): v converted to an interface value
		v := arg(0)
		fn := c.boxFn(v.Ty)
		return TV{T: "(" + fn + " " + v.T + ")", Ty: types.NewInterfaceType(nil, nil)}
	case "strlen":
		return TV{T: "(strlen " + arg(0).T + ")", Ty: types.Typ[types.Int]}
	case "lookup": // lookup(m, k): Go's m[k] (zero value when the key is absent or the map is nil)
		m := arg(0)
		k := arg(1)
		mt, ok := m.Ty.Underlying().(*types.Map)
		if !ok {
			tfail("lookup needs a map")
		}
		md, mv, _ := mapComps(c, mt)
		ks, vs := c.sortOf(mt.Key()), c.sortOf(mt.Elem())
		d := c.comp(e.st, md, "(Array Ref (Array "+ks+" Bool))")
		v := c.comp(e.st, mv, "(Array Ref (Array "+ks+" "+vs+"))")
		return TV{T: "(ite (and (not (= " + m.T + " null)) " + sel(d, m.T, k.T) + ") " + sel(v, m.T, k.T) + " " + c.zero(mt.Elem()) + ")", Ty: mt.Elem()}
	case "strOfBytes": // the string whose bytes the slice holds
		c.needStrOfBytes()
		return TV{T: "(strOfBytes " + arg(0).T + ")", Ty: types.Typ[types.String]}
	case "strat": // strat(s, i): the byte at index i
		c.needStrSub()
		return TV{T: "(strat " + arg(0).T + " " + arg(1).T + ")", Ty: types.Typ[types.Int]}
	case "strsub": // strsub(s, i, j) == s[i:j]
		c.needStrSub()
		return TV{T: "(strsub " + arg(0).T + " " + arg(1).T + " " + arg(2).T + ")", Ty: types.Typ[types.String]}
	case "recvd", "closed":
		v := arg(0)
		comp := c.comp(e.st, chanComp(c, name, v.Ty), "(Array Ref Bool)")
		return TV{T: sel(comp, v.T), Ty: B}
	case "held": // 0 free, 1 write-locked, 2 read-locked by this thread
		comp := c.comp(e.st, "held", "(Array Ref Int)")
		return TV{T: sel(comp, arg(0).T), Ty: types.Typ[types.Int]}
	case "lockOf": // lockOf(ptr, "field"): address of a mutex field
		return e.lockOf(x)
	}
	if g, ok := c.P.Specs.Ghosts[name]; ok {
		var as []TV
		for i := range x.Args {
			as = append(as, arg(i))
		}
		return e.ghostRead(g, as)
	}
	if p, ok := c.P.Specs.Pures[name]; ok {
		var as []TV
		for i := range x.Args {
			as = append(as, arg(i))
		}
		return e.pureCall(p, as)
	}
	tfail("unknown function %s", name)
	return TV{}
}

func (c *Ctx) typeTag(name string) int {
	if t, ok := c.tyTags[name]; ok {
		return t
	}
	t := len(c.tyTags) + 1
	c.tyTags[name] = t
	return t
}

func (e *Env) declEnv(file *SpecFile) *Env {
	ne := &Env{c: e.c, file: file, st: e.st, old: e.old, bind: map[string]TV{}, depth: e.depth + 1}
	if file.PkgPath != "" {
		ne.pkg = e.c.P.typesPkg(file.PkgPath)
	}
	return ne
}

func ghostCompName(g *GhostDecl) string { return "G_" + sanitize(g.Name) }

func (e *Env) ghostSort(g *GhostDecl) (string, []types.Type, TV) {
	de := e.declEnv(g.File)
	rt, rset := de.resolveType(g.Result)
	res := TV{Ty: rt, SetElem: rset}
	s := e.c.sortOfTV(res)
	var pts []types.Type
	for i := len(g.Params) - 1; i >= 0; i-- {
		pt, _ := de.resolveType(g.Params[i].Type)
		s = "(Array " + e.c.sortOf(pt) + " " + s + ")"
	}
	for _, p := range g.Params {
		pt, _ := de.resolveType(p.Type)
		pts = append(pts, pt)
	}
	return s, pts, res
}

func (e *Env) ghostRead(g *GhostDecl, args []TV) TV {
	if len(args) != len(g.Params) {
		tfail("ghost %s expects %d arguments", g.Name, len(g.Params))
	}
	s, pts, res := e.ghostSort(g)
	t := e.c.comp(e.st, ghostCompName(g), s)
	for i, a := range args {
		a = e.coerceNil(a, pts[i])
		if e.c.sortOfTV(a) != e.c.sortOf(pts[i]) {
			tfail("ghost %s: argument %d has sort %s, want %s", g.Name, i, e.c.sortOfTV(a), e.c.sortOf(pts[i]))
		}
		t = sel(t, a.T)
	}
	res.T = t
	return res
}

func (e *Env) pureCall(p *PureDecl, args []TV) TV {
	c := e.c
	if len(args) != len(p.Params) {
		tfail("pure %s expects %d arguments, got %d", p.Name, len(p.Params), len(args))
	}
	de := e.declEnv(p.File)
	rt, rset := de.resolveType(p.Result)
	res := TV{Ty: rt, SetElem: rset}
	var pts []types.Type
	for i, pr := range p.Params {
		pt, pset := de.resolveType(pr.Type)
		pts = append(pts, pt)
		a := args[i]
		if pset == nil {
			a = e.coerceNil(a, pt)
			if c.sortOfTV(a) != c.sortOf(pt) {
				tfail("pure %s: argument %d has sort %s, want %s", p.Name, i, c.sortOfTV(a), c.sortOf(pt))
			}
		}
		args[i] = a
	}
	if p.Def != nil {
		// macro expansion (may read the current state)
		if e.depth > 40 {
			tfail("pure %s: expansion too deep", p.Name)
		}
		for i, pr := range p.Params {
			de.bind[pr.Name] = args[i]
		}
		v := de.tr(p.Def)
		v = e.coerceNil(v, rt)
		return TV{T: v.T, Ty: res.Ty, SetElem: res.SetElem}
	}
	fn := "pure_" + sanitize(p.Name)
	if !c.declared[fn] {
		c.declared[fn] = true
		var ss []string
		for _, pt := range pts {
			ss = append(ss, c.sortOf(pt))
		}
		c.emit(fmt.Sprintf("(declare-fun %s (%s) %s)", fn, strings.Join(ss, " "), c.sortOfTV(res)))
		// range facts for results of sized integer type
		if res.Ty != nil && p.Result.Name != "mathint" {
			if lo, hi, ok := intRange(res.Ty); ok {
				if len(pts) == 0 {
					c.emit(fmt.Sprintf("(assert (and (<= %s %s) (<= %s %s)))", lo, fn, fn, hi))
				} else {
					var bs, as []string
					for i, pt := range pts {
						bs = append(bs, fmt.Sprintf("(a%d %s)", i, c.sortOf(pt)))
						as = append(as, fmt.Sprintf("a%d", i))
					}
					app := "(" + fn + " " + strings.Join(as, " ") + ")"
					c.emit(fmt.Sprintf("(assert (forall (%s) (! (and (<= %s %s) (<= %s %s)) :pattern (%s))))", strings.Join(bs, " "), lo, app, app, hi, app))
				}
			}
		}
	}
	if len(args) == 0 {
		res.T = fn
		return res
	}
	var as []string
	for _, a := range args {
		as = append(as, a.T)
	}
	res.T = "(" + fn + " " + strings.Join(as, " ") + ")"
	return res
}

// lockOf(p, "lock") denotes the address of field `lock` of the struct p points to,
// matching the pointer value the executor builds for &p.lock.
func (e *Env) lockOf(x *ECall) TV {
	c := e.c
	v := e.tr(x.Args[0])
	fs, ok := x.Args[1].(*EStr)
	if !ok {
		tfail("lockOf needs a field name string")
	}
	el, ok := deref(v.Ty)
	if !ok {
		tfail("lockOf needs a pointer")
	}
	st, ok := structOf(el)
	if !ok {
		tfail("lockOf needs a pointer to struct")
	}
	for i := 0; i < st.NumFields(); i++ {
		if st.Field(i).Name() == fs.V {
			fp := c.fieldPtrFn("fp_"+sanitize(fieldComp(el, i))+"0", []string{"Ref"})
			return TV{T: "(" + fp + " " + v.T + ")", Ty: types.NewPointer(st.Field(i).Type())}
		}
	}
	tfail("lockOf: no field %s", fs.V)
	return TV{}
}

// chanComp: event sets about channels are kept per element sort, so that
// channels of different element types are never confused.
func chanComp(c *Ctx, base string, t types.Type) string {
	if t != nil {
		if ch, ok := t.Underlying().(*types.Chan); ok {
			// one component for all directions: `<-chan T` and `chan<- T` are views of a `chan T`
			return base + "_" + sanitize(c.sortOf(ch.Elem()))
		}
	}
	return base
}

// exprType interprets an expression as a type (for typeIs / as).
func (e *Env) exprType(x Expr) types.Type {
	var conv func(x Expr) *TypeExpr
	conv = func(x Expr) *TypeExpr {
		switch y := x.(type) {
		case *EStar:
			return &TypeExpr{Kind: "ptr", Elem: conv(y.X)}
		case *EIdent:
			return &TypeExpr{Kind: "name", Name: y.Name}
		case *ESel:
			if id, ok := y.X.(*EIdent); ok {
				return &TypeExpr{Kind: "name", Pkg: id.Name, Name: y.Name}
			}
		}
		tfail("expected a type, found %s", x.String())
		return nil
	}
	gt, _ := e.resolveType(conv(x))
	return gt
}
