package main

// Symbolic execution of one SSA function body into a passive
// (single-assignment, guarded) SMT program.

import (
	"fmt"
	"go/ast"
	"go/token"
	"go/types"
	"sort"
	"strings"

	"golang.org/x/tools/go/ssa"
)

type pathStep struct {
	st types.Type // struct type
	i  int
}

// LVal describes an addressable location.
type LVal struct {
	// field-wise struct at a reference (Alloc of struct / pointer to struct)
	structRef Term
	// array stored element-wise at a reference
	arrayRef Term
	// location inside a component
	comp  string
	csort string
	idx   []Term
	path  []pathStep
	ty    types.Type
	local bool // backed by a non-escaping Alloc
}

type closureVal struct {
	fn       *ssa.Function
	bindings []ssa.Value
	parent   *Frame
	// sibling: a closure created by the same activation of the enclosing function
	// as the closure under verification (reached through a captured cell); its
	// bindings are values of the enclosing function
	sibling bool
}

type deferRec struct {
	instr *ssa.Defer
	reach Term
	args  []Term
	block *ssa.BasicBlock
	ord   int
}

type retRec struct {
	reach   Term
	st      *State
	results []Term
	block   *ssa.BasicBlock
}

type Frame struct {
	patHit map[string]bool // call-clause patterns that matched some executed call (top frame)
	c        *Ctx
	sibCells map[*ssa.Alloc]Term
	capVals  map[*ssa.Alloc]Term          // contents of write-once captured variables (top frame)
	fvAlloc  map[*ssa.FreeVar]*ssa.Alloc // enclosing-function variable a free variable stands for
	fn       *ssa.Function
	id       string
	parent   *Frame
	depth    int
	vals     map[ssa.Value]Term
	tuples   map[ssa.Value][]Term
	lv       map[ssa.Value]*LVal
	closures map[ssa.Value]*closureVal
	origin   map[ssa.Value]string
	st       *State
	pc       Term
	guard    Term
	entry    *State
	reach    map[*ssa.BasicBlock]Term
	out      map[*ssa.BasicBlock]*State
	edges    map[[2]int]Term
	defers   []*deferRec
	rets     []retRec
	fc       *FuncContract
	top      bool
	localAllocs []*LVal
	loopOrd  map[*ssa.BasicBlock]int
	loopDecr map[*ssa.BasicBlock]Term
	rangeVis map[ssa.Value]string
	callOrd  map[string]int
	curBlock *ssa.BasicBlock
	oneLen   map[ssa.Value]bool // slices statically known to have length 1
	nonNil   map[ssa.Value]bool
	declMods map[string][]Term // declared modifies of the top function: comp -> objects ("at"), empty = whole
}

func newFrame(c *Ctx, fn *ssa.Function, parent *Frame) *Frame {
	fr := &Frame{c: c, fn: fn, parent: parent, vals: map[ssa.Value]Term{}, tuples: map[ssa.Value][]Term{},
		lv: map[ssa.Value]*LVal{}, closures: map[ssa.Value]*closureVal{}, origin: map[ssa.Value]string{},
		reach: map[*ssa.BasicBlock]Term{}, out: map[*ssa.BasicBlock]*State{}, edges: map[[2]int]Term{},
		loopOrd: map[*ssa.BasicBlock]int{}, loopDecr: map[*ssa.BasicBlock]Term{}, rangeVis: map[ssa.Value]string{},
		callOrd: map[string]int{}, oneLen: map[ssa.Value]bool{}, nonNil: map[ssa.Value]bool{}}
	c.n++
	fr.id = fmt.Sprintf("f%d", c.n)
	if parent != nil {
		fr.depth = parent.depth + 1
	}
	return fr
}

// ---------------------------------------------------------------- CFG helpers

func isBackEdge(from, to *ssa.BasicBlock) bool { return to.Dominates(from) }

func (fr *Frame) order() []*ssa.BasicBlock {
	// reverse postorder over forward edges from the entry block
	seen := map[*ssa.BasicBlock]bool{}
	var post []*ssa.BasicBlock
	var dfs func(b *ssa.BasicBlock)
	dfs = func(b *ssa.BasicBlock) {
		seen[b] = true
		for _, s := range b.Succs {
			if !seen[s] && !isBackEdge(b, s) {
				dfs(s)
			}
		}
		post = append(post, b)
	}
	dfs(fr.fn.Blocks[0])
	for i, j := 0, len(post)-1; i < j; i, j = i+1, j-1 {
		post[i], post[j] = post[j], post[i]
	}
	return post
}

func (fr *Frame) isLoopHead(b *ssa.BasicBlock) bool {
	for _, p := range b.Preds {
		if isBackEdge(p, b) {
			return true
		}
	}
	return false
}

// loop ordinals: loop heads ordered by source position of the header block's
// first positioned instruction (falls back to block index).
func (fr *Frame) computeLoopOrdinals() {
	var heads []*ssa.BasicBlock
	for _, b := range fr.fn.Blocks {
		if b == fr.fn.Recover {
			continue
		}
		if fr.isLoopHead(b) {
			heads = append(heads, b)
		}
	}
	// a loop's position is the smallest source position of any instruction in
	// its body; an outer loop therefore precedes the loops nested in it
	body := map[*ssa.BasicBlock][]*ssa.BasicBlock{}
	posOf := map[*ssa.BasicBlock]token.Pos{}
	for _, h := range heads {
		best := token.NoPos
		for _, bb := range fr.fn.Blocks {
			if bb == fr.fn.Recover || !h.Dominates(bb) || !(bb == h || reaches(bb, h)) {
				continue
			}
			body[h] = append(body[h], bb)
			for _, in := range bb.Instrs {
				if _, isDbg := in.(*ssa.DebugRef); isDbg {
					continue
				}
				if _, isPhi := in.(*ssa.Phi); isPhi {
					// a phi carries the position of the variable's declaration, which precedes
					// every loop that assigns the variable
					continue
				}
				if p := in.Pos(); p.IsValid() && (best == token.NoPos || p < best) {
					best = p
				}
			}
		}
		posOf[h] = best
	}
	sort.SliceStable(heads, func(i, j int) bool {
		pi, pj := posOf[heads[i]], posOf[heads[j]]
		if pi != pj {
			return pi < pj
		}
		if len(body[heads[i]]) != len(body[heads[j]]) {
			return len(body[heads[i]]) > len(body[heads[j]])
		}
		return heads[i].Index < heads[j].Index
	})
	for i, h := range heads {
		fr.loopOrd[h] = i
	}
}

func (fr *Frame) loopKey(h *ssa.BasicBlock) string {
	return fmt.Sprintf("%s#%d", funcInstKey(fr.fn), h.Index)
}

// ---------------------------------------------------------------- values

func (fr *Frame) val(v ssa.Value) Term {
	if t, ok := fr.vals[v]; ok {
		return t
	}
	c := fr.c
	switch x := v.(type) {
	case *ssa.Const:
		t := fr.constTerm(x)
		return t
	case *ssa.Global:
		// address of a global: opaque ref
		n := "gaddr_" + sanitize(x.Pkg.Pkg.Name()) + "_" + sanitize(x.Name())
		if !c.declared[n] {
			c.declared[n] = true
			c.emit(fmt.Sprintf("(declare-const %s Ref)", n))
			c.emit(fmt.Sprintf("(assert (not (= %s null)))", n))
		}
		return n
	case *ssa.Function:
		n := "fn_" + sanitize(funcInstKey(x))
		if !c.declared[n] {
			c.declared[n] = true
			c.emit(fmt.Sprintf("(declare-const %s Ref)", n))
			c.emit(fmt.Sprintf("(assert (not (= %s null)))", n))
		}
		return n
	case *ssa.Builtin:
		return "null"
	}
	if fr.parent != nil {
		// free variables of an inlined closure resolve in the parent
		if _, ok := v.(*ssa.FreeVar); ok {
			panic("unbound free variable " + v.Name())
		}
	}
	// value not yet computed (use before def in our order): fresh
	t := c.fresh(fr.id+"_"+v.Name(), c.sortOf(v.Type()))
	fr.vals[v] = t
	return t
}

func (fr *Frame) constTerm(x *ssa.Const) Term {
	c := fr.c
	if x.Value == nil {
		return c.zero(x.Type())
	}
	tv := c.constTV(x.Value, x.Type())
	if c.sortOf(x.Type()) == "Real" && !strings.Contains(tv.T, ".") {
		return tv.T + ".0"
	}
	return tv.T
}

func (fr *Frame) define(v ssa.Value, t Term) {
	c := fr.c
	s := c.sortOf(v.Type())
	n := c.fresh(fr.id+"_"+v.Name(), s)
	c.assert("(= " + n + " " + t + ")")
	fr.vals[v] = n
}

func (fr *Frame) defineFresh(v ssa.Value) Term {
	c := fr.c
	n := c.fresh(fr.id+"_"+v.Name(), c.sortOf(v.Type()))
	fr.vals[v] = n
	for _, f := range c.typeFacts(n, v.Type(), 0) {
		c.assert(implies(fr.pc, f))
	}
	fr.assumeAlive(n, v.Type())
	return n
}

func (fr *Frame) assumeAlive(t Term, ty types.Type) {
	c := fr.c
	switch c.sortOf(ty) {
	case "Ref":
		al := c.comp(fr.st, "alloc", "(Array Ref Bool)")
		c.assert(implies(fr.pc, "(or (= "+t+" null) (select "+al+" "+t+"))"))
	case "Slice":
		al := c.comp(fr.st, "alloc", "(Array Ref Bool)")
		c.assert(implies(fr.pc, "(or (= (sref "+t+") null) (select "+al+" (sref "+t+")))"))
	}
}

func (fr *Frame) allocRef(prefix string) Term {
	c := fr.c
	r := c.fresh(fr.id+"_"+prefix, "Ref")
	al := c.comp(fr.st, "alloc", "(Array Ref Bool)")
	c.assert("(and (not (= " + r + " null)) (not (select " + al + " " + r + ")))")
	c.setComp(fr.st, "alloc", "(store "+al+" "+r+" true)")
	return r
}

// ---------------------------------------------------------------- locations

func (fr *Frame) locOf(p ssa.Value) *LVal {
	if l, ok := fr.lv[p]; ok {
		return l
	}
	c := fr.c
	pt, ok := p.Type().Underlying().(*types.Pointer)
	if !ok {
		c.unsupported("address of non-pointer " + p.String())
		return &LVal{comp: "Cell_unknown", csort: "(Array Ref Int)", idx: []Term{fr.val(p)}, ty: types.Typ[types.Int]}
	}
	el := pt.Elem()
	r := fr.val(p)
	if _, ok := structOf(el); ok {
		return &LVal{structRef: r, ty: el}
	}
	if _, ok := el.Underlying().(*types.Array); ok {
		return &LVal{arrayRef: r, ty: el}
	}
	return &LVal{comp: cellComp(c, el), csort: "(Array Ref " + c.sortOf(el) + ")", idx: []Term{r}, ty: el}
}

func (fr *Frame) load(l *LVal) Term {
	c := fr.c
	if l.structRef != "" {
		st, _ := structOf(l.ty)
		fs := make([]Term, st.NumFields())
		for i := range fs {
			comp := c.comp(fr.st, fieldComp(l.ty, i), "(Array Ref "+c.sortOf(st.Field(i).Type())+")")
			fs[i] = sel(comp, l.structRef)
		}
		return c.mkStruct(l.ty, fs)
	}
	if l.arrayRef != "" {
		a := l.ty.Underlying().(*types.Array)
		comp := c.comp(fr.st, elemComp(c, a.Elem()), "(Array Ref (Array Int "+c.sortOf(a.Elem())+"))")
		return sel(comp, l.arrayRef)
	}
	t := sel(c.comp(fr.st, l.comp, l.csort), l.idx...)
	for _, ps := range l.path {
		t = c.fieldOf(ps.st, t, ps.i)
	}
	return t
}

func (fr *Frame) store(l *LVal, v Term) {
	c := fr.c
	if l.structRef != "" {
		st, _ := structOf(l.ty)
		for i := 0; i < st.NumFields(); i++ {
			name := fieldComp(l.ty, i)
			comp := c.comp(fr.st, name, "(Array Ref "+c.sortOf(st.Field(i).Type())+")")
			c.setComp(fr.st, name, "(store "+comp+" "+l.structRef+" "+c.fieldOf(l.ty, v, i)+")")
		}
		return
	}
	if l.arrayRef != "" {
		a := l.ty.Underlying().(*types.Array)
		name := elemComp(c, a.Elem())
		comp := c.comp(fr.st, name, "(Array Ref (Array Int "+c.sortOf(a.Elem())+"))")
		c.setComp(fr.st, name, "(store "+comp+" "+l.arrayRef+" "+v+")")
		return
	}
	cur := c.comp(fr.st, l.comp, l.csort)
	nv := v
	if len(l.path) > 0 {
		old := sel(cur, l.idx...)
		nv = fr.rebuild(old, l.path, v)
	}
	c.setComp(fr.st, l.comp, storeN(cur, l.idx, nv))
}

func (fr *Frame) rebuild(old Term, path []pathStep, v Term) Term {
	if len(path) == 0 {
		return v
	}
	inner := fr.rebuild(fr.c.fieldOf(path[0].st, old, path[0].i), path[1:], v)
	return fr.c.updField(path[0].st, old, path[0].i, inner)
}

// ---------------------------------------------------------------- name lookup for contracts

type nameCand struct {
	v      ssa.Value
	isAddr bool
	block  *ssa.BasicBlock
	idx    int
}

func (fr *Frame) lookupName(name string, e *Env) (TV, bool) {
	// The contract was written against the baseline source: locals and parameters that were only
	// renamed since (the declaration is otherwise identical) are looked up under their new names.
	// Several variables may have shared the old name; all their new names are candidates and the
	// usual scoping rule (deepest dominating definition) picks among them, as it did before.
	is := func(s string) bool { return s == name }
	isBase := func(s, base string) bool { return s == base }
	if rm := fr.c.P.renamesFor(fr.fn); rm != nil && !strings.HasPrefix(name, "$") {
		if alts, ok := rm[name]; ok {
			is = func(s string) bool { return inList(alts, s) }
			fr.c.assumed["contract name resolved through a pure rename of locals detected against /verif/baseline_src: "+name+" -> "+strings.Join(alts, "|")+" in "+displayName(fr.fn)] = true
		}
		isBase = func(s, base string) bool {
			if alts, ok := rm[base]; ok {
				return inList(alts, s)
			}
			return s == base
		}
	}
	fn := fr.fn
	entry := false
	base := name
	if strings.HasSuffix(name, "0") && len(name) > 1 {
		base = name[:len(name)-1]
		for _, p := range fn.Params {
			if isBase(p.Name(), base) {
				entry = true
			}
		}
		if !entry {
			base = name
		}
	}
	if entry {
		for _, p := range fn.Params {
			if isBase(p.Name(), base) {
				return TV{T: fr.val(p), Ty: p.Type()}, true
			}
		}
	}
	// special names
	if name == "$key" {
		hb := e.at
		if e.loopHead != nil {
			hb = e.loopHead
		}
		if hb != nil {
			for _, in := range hb.Instrs {
				if nx, ok := in.(*ssa.Next); ok {
					if rg, ok := nx.Iter.(*ssa.Range); ok {
						if mt, ok := rg.X.Type().Underlying().(*types.Map); ok {
							if tup := fr.tuples[nx]; len(tup) >= 2 {
								return TV{T: tup[1], Ty: mt.Key()}, true
							}
						}
					}
				}
			}
		}
		return TV{}, false
	}
	if name == "$i" || name == "$visited" {
		hb := e.at
		if e.loopHead != nil {
			hb = e.loopHead
		} else if hb != nil && name == "$i" {
			// inside a loop body: the innermost enclosing range loop; $i is then the
			// index of the element being processed
			for h := hb; h != nil; h = h.Idom() {
				isRange := false
				for _, in := range h.Instrs {
					if ph, ok := in.(*ssa.Phi); ok && ph.Comment == "rangeindex" {
						isRange = true
					}
				}
				if inductionPhi(h) != nil {
					isRange = true
				}
				if isRange && (h == hb || reaches(hb, h)) {
					hb = h
					break
				}
			}
		}
		if hb != nil {
			for _, in := range hb.Instrs {
				if ph, ok := in.(*ssa.Phi); ok && ph.Comment == "rangeindex" && name == "$i" {
					return TV{T: "(+ " + e.valTerm(ph) + " 1)", Ty: types.Typ[types.Int]}, true
				}
				if ph, ok := in.(*ssa.Phi); ok && name == "$i" && ph == inductionPhi(hb) {
					// `for i := 0; ...; i++`: i elements have been processed at the head
					return TV{T: e.valTerm(ph), Ty: types.Typ[types.Int]}, true
				}
				if nx, ok := in.(*ssa.Next); ok && name == "$visited" {
					rg := nx.Iter.(*ssa.Range)
					if mt, ok := rg.X.Type().Underlying().(*types.Map); ok {
						comp := fr.rangeVis[rg]
						t := fr.c.comp(e.st, comp, "(Array "+fr.c.sortOf(mt.Key())+" Bool)")
						return TV{T: t, SetElem: mt.Key()}, true
					}
				}
			}
		}
		return TV{}, false
	}
	// phis at the current block (or at the loop head for back-edge ghost updates)
	pb := e.at
	if e.loopHead != nil {
		pb = e.loopHead
	}
	if pb != nil {
		for _, in := range pb.Instrs {
			ph, ok := in.(*ssa.Phi)
			if !ok {
				break
			}
			if is(ph.Comment) {
				return TV{T: e.valTerm(ph), Ty: ph.Type()}, true
			}
		}
	}
	// address-taken locals / named results / captured variables (a dominating one is preferred)
	var anyAlloc, domAlloc *ssa.Alloc
	for _, b := range fn.Blocks {
		for _, in := range b.Instrs {
			if a, ok := in.(*ssa.Alloc); ok && is(a.Comment) {
				if _, done := fr.vals[a]; !done {
					continue
				}
				if anyAlloc == nil {
					anyAlloc = a
				}
				if e.at != nil && b.Dominates(e.at) && (domAlloc == nil || domDepth(b) >= domDepth(domAlloc.Block())) {
					domAlloc = a
				}
			}
		}
	}
	if domAlloc != nil {
		anyAlloc = domAlloc
	}
	if anyAlloc != nil && anyAlloc.Parent() == fr.fn && immutableCapture(anyAlloc) {
		if st := singleStore(anyAlloc); st != nil {
			if v, done := fr.vals[st.Val]; done {
				return TV{T: v, Ty: anyAlloc.Type().Underlying().(*types.Pointer).Elem()}, true
			}
			if _, isParam := st.Val.(*ssa.Parameter); isParam {
				return TV{T: fr.val(st.Val), Ty: anyAlloc.Type().Underlying().(*types.Pointer).Elem()}, true
			}
		}
	}
	if anyAlloc != nil {
		l := fr.locOf(anyAlloc)
		ne := *fr
		ne.st = e.st
		return TV{T: ne.load(l), Ty: anyAlloc.Type().Underlying().(*types.Pointer).Elem()}, true
	}
	for _, fv := range fn.FreeVars {
		if is(fv.Name()) {
			if a := fr.capturedAlloc(fv); a != nil && immutableCapture(a) {
				return TV{T: fr.capConst(a), Ty: fv.Type().Underlying().(*types.Pointer).Elem()}, true
			}
			if fr.freeVarByRef(fv) {
				l := fr.locOf(fv)
				ne := *fr
				ne.st = e.st
				return TV{T: ne.load(l), Ty: fv.Type().Underlying().(*types.Pointer).Elem()}, true
			}
			return TV{T: fr.val(fv), Ty: fv.Type()}, true
		}
	}
	// debug refs: deepest dominating definition
	var best *nameCand
	consider := func(cnd nameCand) {
		if e.at != nil {
			if !cnd.block.Dominates(e.at) {
				return
			}
			if cnd.block == e.at && e.atStart {
				// at a loop head only phis and pure header instructions (recomputed
				// from the phis) are defined; values computed later in the header
				// block belong to the iteration that is about to start
				switch cnd.v.(type) {
				case *ssa.Phi, *ssa.BinOp, *ssa.Convert, *ssa.ChangeType, *ssa.Parameter, *ssa.Const:
				default:
					if u, ok := cnd.v.(*ssa.UnOp); !ok || u.Op == token.MUL || u.Op == token.ARROW {
						return
					}
				}
			}
		}
		if _, ok := fr.vals[cnd.v]; !ok {
			if _, isParam := cnd.v.(*ssa.Parameter); !isParam {
				if _, isConst := cnd.v.(*ssa.Const); !isConst {
					return
				}
			}
		}
		if best == nil || domDepth(cnd.block) > domDepth(best.block) || (cnd.block == best.block && cnd.idx > best.idx) {
			cp := cnd
			best = &cp
		}
	}
	for _, b := range fn.Blocks {
		for i, in := range b.Instrs {
			switch x := in.(type) {
			case *ssa.DebugRef:
				id, ok := x.Expr.(*ast.Ident)
				if !ok || !is(id.Name) {
					continue
				}
				if v, isVar := x.Object().(*types.Var); !isVar || v.IsField() {
					continue
				}
				vb := b
				if vi, ok := x.X.(ssa.Instruction); ok && vi.Block() != nil {
					vb = vi.Block()
				}
				if _, isParam := x.X.(*ssa.Parameter); isParam {
					vb = fn.Blocks[0]
				}
				consider(nameCand{x.X, x.IsAddr, vb, i})
			case *ssa.Phi:
				if is(x.Comment) {
					consider(nameCand{x, false, b, i})
				}
			}
		}
	}
	if best != nil {
		if best.isAddr {
			l := fr.locOf(best.v)
			ne := *fr
			ne.st = e.st
			return TV{T: ne.load(l), Ty: best.v.Type().Underlying().(*types.Pointer).Elem()}, true
		}
		return TV{T: e.valTerm(best.v), Ty: best.v.Type()}, true
	}
	for _, p := range fn.Params {
		if is(p.Name()) {
			return TV{T: fr.val(p), Ty: p.Type()}, true
		}
	}
	// a closure verified on its own may be specified in terms of captured variables of
	// its enclosing function that only its sibling closures use
	for anc := fn.Parent(); fr.parent == nil && anc != nil; anc = anc.Parent() {
		for _, b := range anc.Blocks {
			for _, in := range b.Instrs {
				if a, ok := in.(*ssa.Alloc); ok && a.Heap && is(a.Comment) {
					el := a.Type().Underlying().(*types.Pointer).Elem()
					if immutableCapture(a) {
						return TV{T: fr.capConst(a), Ty: el}, true
					}
					r := fr.siblingCell(a)
					ne := *fr
					ne.st = e.st
					saved := fr.vals[a]
					fr.vals[a] = r
					l := ne.locOf(a)
					if saved == "" {
						delete(fr.vals, a)
					} else {
						fr.vals[a] = saved
					}
					return TV{T: ne.load(l), Ty: el}, true
				}
			}
		}
	}
	// an inlined closure may be specified in terms of its enclosing function's variables
	if fr.parent != nil && fr.fn.Parent() != nil {
		for pf := fr.parent; pf != nil; pf = pf.parent {
			if pf.fn == fr.fn.Parent() {
				pe := *e
				pe.fr = pf
				pe.at = nil
				pe.subst = nil
				pe.loopHead = nil
				pe.atStart = false
				return pf.lookupName(name, &pe)
			}
		}
	}
	return TV{}, false
}

// siblingCell: the cell of a captured variable of the enclosing function, as seen from a
// closure verified on its own. If the closure captures the variable itself, that is its
// free variable; otherwise one unknown cell per variable (allocated before entry, distinct
// from the other captured cells).
func (fr *Frame) siblingCell(a *ssa.Alloc) Term {
	top := fr.topFrame()
	c := fr.c
	if t, ok := top.sibCells[a]; ok {
		return t
	}
	if top.sibCells == nil {
		top.sibCells = map[*ssa.Alloc]Term{}
	}
	// the closure under verification may capture the variable itself
	for _, fv := range top.fn.FreeVars {
		if resolveCapture(top.fn, fv) == a {
			t := top.val(fv)
			top.sibCells[a] = t
			return t
		}
	}
	n := c.fresh("sib_"+a.Comment, "Ref")
	c.assert("(not (= " + n + " null))")
	if top.entry != nil {
		if al, ok := top.entry.comps["alloc"]; ok {
			c.assert("(select " + al + " " + n + ")")
		}
	}
	al := c.comp(top.st, "alloc", "(Array Ref Bool)")
	c.assert("(select " + al + " " + n + ")")
	var others []Term
	for _, fv := range top.fn.FreeVars {
		if top.freeVarByRef(fv) {
			others = append(others, top.val(fv))
		}
	}
	for _, o := range top.sibCells {
		others = append(others, o)
	}
	for _, o := range others {
		if o != n {
			c.assert("(not (= " + n + " " + o + "))")
		}
	}
	top.sibCells[a] = n
	c.assumed["captured variables of the enclosing function that only sibling closures use are unknown cells allocated before entry"] = true
	return n
}

// capturedAlloc: the variable of the enclosing function of the closure under
// verification that a free variable stands for (nil when unknown).
func (fr *Frame) capturedAlloc(fv *ssa.FreeVar) *ssa.Alloc {
	if a, ok := fr.fvAlloc[fv]; ok {
		return a
	}
	if fr.parent != nil || fr.fn.Parent() == nil {
		return nil
	}
	return resolveCapture(fr.fn, fv)
}

// resolveCapture follows a free variable through the MakeClosure instructions of the
// enclosing functions to the variable it captures.
func resolveCapture(fn *ssa.Function, fv *ssa.FreeVar) *ssa.Alloc {
	p := fn.Parent()
	if p == nil {
		return nil
	}
	for _, b := range p.Blocks {
		for _, in := range b.Instrs {
			if mc, ok := in.(*ssa.MakeClosure); ok && mc.Fn == fn {
				for j, bv := range mc.Bindings {
					if j < len(fn.FreeVars) && fn.FreeVars[j] == fv {
						switch x := bv.(type) {
						case *ssa.Alloc:
							return x
						case *ssa.FreeVar:
							return resolveCapture(p, x)
						}
					}
				}
			}
		}
	}
	return nil
}

// capConst: the content of a write-once captured variable of the enclosing function
// (one unknown value for the whole execution of the closure under verification).
func (fr *Frame) capConst(a *ssa.Alloc) Term {
	top := fr.topFrame()
	c := fr.c
	if t, ok := top.capVals[a]; ok {
		return t
	}
	if top.capVals == nil {
		top.capVals = map[*ssa.Alloc]Term{}
	}
	el := a.Type().Underlying().(*types.Pointer).Elem()
	n := c.fresh("cap_"+a.Comment, c.sortOf(el))
	for _, f := range c.typeFacts(n, el, 0) {
		c.assert(f)
	}
	al := ""
	if top.entry != nil {
		al = top.entry.comps["alloc"]
	}
	if al == "" {
		al = c.comp(top.st, "alloc", "(Array Ref Bool)")
	}
	switch c.sortOf(el) {
	case "Ref":
		c.assert("(or (= " + n + " null) (select " + al + " " + n + "))")
	case "Slice":
		c.assert("(or (= (sref " + n + ") null) (select " + al + " (sref " + n + ")))")
	}
	if storedClosure(a) {
		c.assert("(not (= " + n + " null))")
	}
	top.capVals[a] = n
	c.assumed["a captured variable stored once (in the block that declares it, before any closure captures it) and only read by closures keeps its value"] = true
	return n
}

var immCapMemo = map[*ssa.Alloc]bool{}

// immutableCapture: a heap variable with exactly one store, in the block that
// allocates it and before every closure that binds it, whose closures only read it.
func immutableCapture(a *ssa.Alloc) bool {
	if v, ok := immCapMemo[a]; ok {
		return v
	}
	res := immutableCapture1(a)
	immCapMemo[a] = res
	return res
}

func immutableCapture1(a *ssa.Alloc) bool {
	if !a.Heap || a.Referrers() == nil {
		return false
	}
	var store *ssa.Store
	var mcs []*ssa.MakeClosure
	for _, ref := range *a.Referrers() {
		switch r := ref.(type) {
		case *ssa.Store:
			if r.Addr != ssa.Value(a) || store != nil {
				return false
			}
			store = r
		case *ssa.UnOp:
			if r.Op != token.MUL {
				return false
			}
		case *ssa.MakeClosure:
			mcs = append(mcs, r)
		case *ssa.DebugRef:
		default:
			return false
		}
	}
	if store == nil || store.Block() != a.Block() {
		return false
	}
	idx := func(in ssa.Instruction) int {
		for i, x := range in.Block().Instrs {
			if x == in {
				return i
			}
		}
		return -1
	}
	for _, mc := range mcs {
		if mc.Block() == store.Block() {
			if idx(mc) < idx(store) && !onlyStoredBy(mc, store) {
				// (a closure that captures the variable it is then stored in, `fn = func() {… fn …}`,
				// cannot run before the store: the store is the only use of the closure value)
				return false
			}
		} else if !store.Block().Dominates(mc.Block()) {
			return false
		}
		f := mc.Fn.(*ssa.Function)
		for i, bv := range mc.Bindings {
			if bv == ssa.Value(a) && !fvReadOnly(f.FreeVars[i]) {
				return false
			}
		}
	}
	return true
}

// onlyStoredBy: the closure value flows nowhere but into the given store.
func onlyStoredBy(mc *ssa.MakeClosure, st *ssa.Store) bool {
	var ok func(v ssa.Value) bool
	ok = func(v ssa.Value) bool {
		if v.Referrers() == nil {
			return false
		}
		for _, r := range *v.Referrers() {
			switch x := r.(type) {
			case *ssa.Store:
				if x != st || x.Val != v {
					return false
				}
			case *ssa.ChangeType:
				if !ok(x) {
					return false
				}
			case *ssa.DebugRef:
			default:
				return false
			}
		}
		return true
	}
	return ok(mc)
}

func storedClosure(a *ssa.Alloc) bool {
	st := singleStore(a)
	if st == nil {
		return false
	}
	v := st.Val
	if ct, ok := v.(*ssa.ChangeType); ok {
		v = ct.X
	}
	_, ok := v.(*ssa.MakeClosure)
	return ok
}

func fvReadOnly(fv *ssa.FreeVar) bool {
	if fv.Referrers() == nil {
		return true
	}
	for _, ref := range *fv.Referrers() {
		switch r := ref.(type) {
		case *ssa.UnOp:
			if r.Op != token.MUL {
				return false
			}
		case *ssa.DebugRef:
		case *ssa.MakeClosure:
			f := r.Fn.(*ssa.Function)
			for i, bv := range r.Bindings {
				if bv == ssa.Value(fv) && !fvReadOnly(f.FreeVars[i]) {
					return false
				}
			}
		default:
			return false
		}
	}
	return true
}

// localType: the type of a source-level local variable of the function, by name.
func (fr *Frame) localType(name string) types.Type {
	if alts, ok := fr.c.P.renamesFor(fr.fn)[name]; ok {
		for _, a := range alts {
			if a != name {
				if t := fr.localType0(a); t != nil {
					return t
				}
			}
		}
	}
	return fr.localType0(name)
}

func (fr *Frame) localType0(name string) types.Type {
	for _, b := range fr.fn.Blocks {
		for _, in := range b.Instrs {
			switch x := in.(type) {
			case *ssa.Alloc:
				if x.Comment == name {
					return x.Type().Underlying().(*types.Pointer).Elem()
				}
			case *ssa.Phi:
				if x.Comment == name {
					return x.Type()
				}
			case *ssa.DebugRef:
				if id, ok := x.Expr.(*ast.Ident); ok && id.Name == name {
					if v, isVar := x.Object().(*types.Var); isVar && !v.IsField() {
						return v.Type()
					}
				}
			}
		}
	}
	return nil
}

func domDepth(b *ssa.BasicBlock) int {
	d := 0
	for x := b.Idom(); x != nil; x = x.Idom() {
		d++
	}
	return d
}

func (fr *Frame) freeVarByRef(fv *ssa.FreeVar) bool {
	// by-reference capture: the parent has a heap Alloc with this name and type
	p := fr.fn.Parent()
	if p == nil {
		return false
	}
	for _, b := range p.Blocks {
		for _, in := range b.Instrs {
			if a, ok := in.(*ssa.Alloc); ok && a.Comment == fv.Name() && types.Identical(a.Type(), fv.Type()) {
				return true
			}
		}
	}
	for _, pfv := range p.FreeVars {
		if pfv.Name() == fv.Name() && types.Identical(pfv.Type(), fv.Type()) {
			pf := &Frame{fn: p}
			return pf.freeVarByRef(pfv)
		}
	}
	return false
}

// valTerm evaluates an SSA value under the environment's substitution
// (used for loop invariants on the back edge).
func (e *Env) valTerm(v ssa.Value) Term {
	if e.subst != nil {
		if t, ok := e.subst[v]; ok {
			return t
		}
		if in, ok := v.(ssa.Instruction); ok && e.at != nil && in.Block() == e.at {
			if t, ok := e.fr.pureTerm(in, func(o ssa.Value) Term { return e.valTerm(o) }); ok {
				return t
			}
		}
	} else if in, ok := v.(ssa.Instruction); ok && e.at != nil && in.Block() == e.at {
		if _, done := e.fr.vals[v]; !done {
			if t, ok := e.fr.pureTerm(in, func(o ssa.Value) Term { return e.valTerm(o) }); ok {
				return t
			}
		}
	}
	return e.fr.val(v)
}

// ---------------------------------------------------------------- environment for contracts

func (fr *Frame) env(at *ssa.BasicBlock) *Env {
	e := &Env{c: fr.c, fr: fr, at: at, st: fr.st, old: fr.entry, bind: map[string]TV{}, fc: fr.fc}
	pkg := fr.fn.Pkg
	f := fr.fn
	for pkg == nil && f.Parent() != nil {
		f = f.Parent()
		pkg = f.Pkg
	}
	if pkg == nil && fr.fn.Origin() != nil {
		pkg = fr.fn.Origin().Pkg
	}
	if pkg != nil {
		e.pkg = pkg.Pkg
	}
	if fr.fc != nil {
		e.file = fr.fc.File
	}
	return e
}

func inList(xs []string, s string) bool {
	for _, x := range xs {
		if x == s {
			return true
		}
	}
	return false
}

// inductionPhi: the counter of a loop written `for i := 0; cond; i++` (an int phi at the head
// that starts at the constant 0 and whose only other incoming value is itself plus 1), if the
// head has exactly one and is not a range loop. `$i` then denotes it.
func inductionPhi(h *ssa.BasicBlock) *ssa.Phi {
	var found *ssa.Phi
	for _, in := range h.Instrs {
		ph, ok := in.(*ssa.Phi)
		if !ok {
			break
		}
		if ph.Comment == "rangeindex" {
			return nil
		}
		bt, ok := ph.Type().Underlying().(*types.Basic)
		if !ok || bt.Kind() != types.Int || len(ph.Edges) != 2 {
			continue
		}
		zero, step := false, false
		for _, ev := range ph.Edges {
			switch v := ev.(type) {
			case *ssa.Const:
				if v.Value != nil && v.Value.ExactString() == "0" {
					zero = true
				}
			case *ssa.BinOp:
				if k, isC := v.Y.(*ssa.Const); isC && v.Op == token.ADD && v.X == ph && k.Value != nil && k.Value.ExactString() == "1" {
					step = true
				}
			}
		}
		if zero && step {
			if found != nil {
				return nil
			}
			found = ph
		}
	}
	return found
}
