package main

import (
	"fmt"
	"go/token"
	"go/types"
	"sort"
	"strings"

	"golang.org/x/tools/go/ssa"
)

// run executes the body of fr.fn. Parameters/free variables must be bound in
// fr.vals already; fr.st is the entry state and fr.guard the entry guard.
func (fr *Frame) run() {
	c := fr.c
	fn := fr.fn
	if len(fn.Blocks) == 0 {
		c.unsupported("function without body: " + funcInstKey(fn))
		return
	}
	fr.computeLoopOrdinals()
	order := fr.order()
	for _, b := range order {
		fr.curBlock = b
		// ---- entry state and reach
		if b.Index == 0 {
			fr.reach[b] = fr.guard
		} else {
			var guards []Term
			var sts []*State
			for _, p := range b.Preds {
				if isBackEdge(p, b) {
					continue
				}
				g, ok := fr.edges[[2]int{p.Index, b.Index}]
				if !ok {
					continue // predecessor not reachable (e.g. recover block)
				}
				guards = append(guards, g)
				pst := fr.out[p]
				if h := fr.breakLoopOf(p, b); h != nil && !c.dry {
					if spec := fr.loopSpec(h); spec != nil && len(spec.BreakSets) > 0 {
						saved := fr.st
						fr.st = pst.clone()
						for _, gs := range spec.BreakSets {
							fr.applyLoopGhostSet(gs, h, p, map[ssa.Value]Term{})
						}
						pst = fr.st
						fr.st = saved
					}
				}
				sts = append(sts, pst)
			}
			if len(guards) == 0 {
				continue
			}
			r := c.fresh(fr.id+"_reach_b"+fmt.Sprint(b.Index), "Bool")
			c.assert("(= " + r + " " + or(guards...) + ")")
			fr.reach[b] = r
			fr.st = c.mergeStates(guards, sts)
		}
		fr.pc = fr.reach[b]
		if fr.isLoopHead(b) {
			fr.loopHead(b)
		} else {
			fr.phis(b, false)
		}
		// ---- instructions
		terminated := false
		for _, in := range b.Instrs {
			if _, ok := in.(*ssa.Phi); ok {
				continue
			}
			if fr.instr(in) {
				terminated = true
				break
			}
		}
		fr.out[b] = fr.st
		if terminated {
			continue
		}
	}
}

// phis defines the phi nodes of block b from its forward predecessors.
func (fr *Frame) phis(b *ssa.BasicBlock, headerEntryOnly bool) {
	c := fr.c
	for _, in := range b.Instrs {
		ph, ok := in.(*ssa.Phi)
		if !ok {
			break
		}
		n := c.fresh(fr.id+"_"+ph.Name(), c.sortOf(ph.Type()))
		for i, p := range b.Preds {
			if isBackEdge(p, b) {
				continue
			}
			g, ok := fr.edges[[2]int{p.Index, b.Index}]
			if !ok {
				continue
			}
			c.assert(implies(g, "(= "+n+" "+fr.val(ph.Edges[i])+")"))
		}
		fr.vals[ph] = n
	}
}

func (fr *Frame) loopSpec(b *ssa.BasicBlock) *LoopSpec {
	if fr.fc == nil {
		return nil
	}
	return fr.fc.Loops[fr.loopOrd[b]]
}

func (fr *Frame) oblName(kind, label string) string {
	return fmt.Sprintf("%s/%s:%s", displayName(fr.topFrame().fn), kind, label)
}

func (fr *Frame) topFrame() *Frame {
	f := fr
	for f.parent != nil {
		f = f.parent
	}
	return f
}

func displayName(fn *ssa.Function) string {
	s := funcKey(fn)
	s = strings.ReplaceAll(s, modulePath+"/", "")
	s = strings.ReplaceAll(s, modulePath, "oras")
	// shorten package paths inside receivers: keep last element
	return shortenPaths(s)
}

func shortenPaths(s string) string {
	// replace a/b/c.Name by c.Name
	var out strings.Builder
	i := 0
	for i < len(s) {
		j := i
		for j < len(s) && (isIdentByte(s[j]) || s[j] == '/' || s[j] == '-') {
			j++
		}
		seg := s[i:j]
		if k := strings.LastIndex(seg, "/"); k >= 0 {
			seg = seg[k+1:]
		}
		out.WriteString(seg)
		if j < len(s) {
			out.WriteByte(s[j])
			j++
		}
		i = j
	}
	return out.String()
}

func isIdentByte(b byte) bool {
	return b == '_' || b == '$' || (b >= '0' && b <= '9') || (b >= 'a' && b <= 'z') || (b >= 'A' && b <= 'Z')
}

func (fr *Frame) loopHead(b *ssa.BasicBlock) {
	c := fr.c
	spec := fr.loopSpec(b)
	ord := fr.loopOrd[b]
	// 1. entry values of the phis
	entryVals := map[ssa.Value]Term{}
	for _, in := range b.Instrs {
		ph, ok := in.(*ssa.Phi)
		if !ok {
			break
		}
		n := c.fresh(fr.id+"_"+ph.Name()+"_entry", c.sortOf(ph.Type()))
		for i, p := range b.Preds {
			if isBackEdge(p, b) {
				continue
			}
			if g, ok := fr.edges[[2]int{p.Index, b.Index}]; ok {
				c.assert(implies(g, "(= "+n+" "+fr.val(ph.Edges[i])+")"))
			}
		}
		entryVals[ph] = n
	}
	if spec == nil && fr.fc != nil && fr.top {
		c.unsupported(fmt.Sprintf("loop %d of %s has no invariant (treated with invariant true)", ord, displayName(fr.fn)))
	}
	// 2. invariant on entry
	if spec != nil {
		for _, inv := range spec.Invs {
			e := fr.env(b)
			e.atStart = true
			e.subst = entryVals
			t, err := e.Bool(inv.E)
			if err != nil {
				fr.bindingFailure(inv, err)
				continue
			}
			c.oblige(&Obligation{Name: fr.oblName("inv-init", fmt.Sprintf("loop%d:%s", ord, inv.Label)), Kind: "inv-init", Label: inv.Label,
				Props: inv.Props, PC: fr.pc, Goal: t, Where: inv.Where, Src: inv.Src})
		}
	}
	// 2b. automatic frame invariants (functions with a declared modifies set)
	autoInvs := fr.autoFrameInvs(b)
	for _, ai := range autoInvs {
		c.oblige(&Obligation{Name: fr.oblName("inv-init", fmt.Sprintf("loop%d:frame:%s", ord, ai.comp)), Kind: "inv-init", Label: "frame:" + ai.comp,
			PC: fr.pc, Goal: ai.goal(fr.st), Where: fr.fc.Where, Src: "automatic loop frame invariant for component " + ai.comp})
	}
	// 3. havoc
	key := fr.loopKey(b)
	if c.dry {
		// havoc everything known so far; record what changes later
		for name := range c.compSort {
			c.havocComp(fr.st, name)
		}
		fr.preserveLocalsNotIn(b)
	} else {
		mods := c.loopMods[key]
		var names []string
		for name := range mods {
			names = append(names, name)
		}
		sort.Strings(names)
		for _, name := range names {
			if _, ok := c.compSort[name]; ok {
				c.comp(fr.st, name, c.compSort[name])
				if name == "alloc" {
					fr.growAlloc() // allocation only grows across iterations
					continue
				}
				c.havocComp(fr.st, name)
			}
		}
	}
	for _, in := range b.Instrs {
		ph, ok := in.(*ssa.Phi)
		if !ok {
			break
		}
		n := c.fresh(fr.id+"_"+ph.Name(), c.sortOf(ph.Type()))
		fr.vals[ph] = n
		for _, f := range c.typeFacts(n, ph.Type(), 0) {
			c.assert(implies(fr.pc, f))
		}
	}
	// every pointer-like value held in a variable refers to an allocated object;
	// the compiler-generated index of a range loop starts at -1 and only grows
	for _, in := range b.Instrs {
		ph, ok := in.(*ssa.Phi)
		if !ok {
			break
		}
		fr.assumeAlive(fr.vals[ph], ph.Type())
		if ph.Comment == "rangeindex" {
			c.assert(implies(fr.pc, "(and (>= "+fr.vals[ph]+" (- 1)) (< "+fr.vals[ph]+" 9223372036854775807))"))
		}
		if ph == inductionPhi(b) {
			// starts at 0 and is only incremented
			c.assert(implies(fr.pc, "(>= "+fr.vals[ph]+" 0)"))
		}
	}
	// alloc only grows
	if al, ok := fr.st.comps["alloc"]; ok {
		if c.compInit["alloc"] != "" {
			_ = al
		}
	}
	fr.loopHeadState(b)
	for _, ai := range autoInvs {
		c.assert(implies(fr.pc, ai.goal(fr.st)))
	}
	// 4. assume invariant
	if spec != nil {
		for _, inv := range spec.Invs {
			e := fr.env(b)
			e.atStart = true
			t, err := e.Bool(inv.E)
			if err != nil {
				continue
			}
			c.assert(implies(fr.pc, t))
		}
		if spec.Decreases != nil {
			e := fr.env(b)
			e.atStart = true
			tv, err := e.Value(spec.Decreases.E)
			if err != nil {
				fr.bindingFailure(spec.Decreases, err)
			} else {
				d := c.fresh(fr.id+"_variant", "Int")
				c.assert("(= " + d + " " + tv.T + ")")
				fr.loopDecr[b] = d
			}
		}
	}
}

// remembers the state at a loop head for the dry-run modification analysis
var _ = token.NoPos

func (fr *Frame) loopHeadState(b *ssa.BasicBlock) {
	if fr.c.dry {
		fr.headStates()[b] = fr.st.clone()
	}
}

var headStatesByFrame = map[*Frame]map[*ssa.BasicBlock]*State{}

func (fr *Frame) headStates() map[*ssa.BasicBlock]*State {
	m, ok := headStatesByFrame[fr]
	if !ok {
		m = map[*ssa.BasicBlock]*State{}
		headStatesByFrame[fr] = m
	}
	return m
}

func (fr *Frame) preserveLocalsNotIn(b *ssa.BasicBlock) {}

// breakLoopOf: p -> b leaves the innermost loop containing p from its body (p is not the head).
func (fr *Frame) breakLoopOf(p, b *ssa.BasicBlock) *ssa.BasicBlock {
	var best *ssa.BasicBlock
	for _, h := range fr.fn.Blocks {
		if !fr.isLoopHead(h) || h == p || !h.Dominates(p) || !reaches(p, h) {
			continue
		}
		// b outside the loop of h
		if h.Dominates(b) && reaches(b, h) {
			continue
		}
		if best == nil || best.Dominates(h) {
			best = h
		}
	}
	return best
}

// backEdge is called when control reaches a back edge p -> h.
func (fr *Frame) backEdge(p, h *ssa.BasicBlock, cond Term) {
	c := fr.c
	if c.dry {
		hs := fr.headStates()[h]
		key := fr.loopKey(h)
		if c.loopMods[key] == nil {
			c.loopMods[key] = map[string]bool{}
		}
		for name, t := range fr.st.comps {
			if hs != nil {
				ht, present := hs.comps[name]
				if present && ht == t {
					continue
				}
				if !present && t == c.compInit[name] {
					continue // first read inside the loop, never written
				}
			}
			c.loopMods[key][name] = true
		}
		return
	}
	spec := fr.loopSpec(h)
	if spec == nil {
		return
	}
	subst := map[ssa.Value]Term{}
	for _, in := range h.Instrs {
		ph, ok := in.(*ssa.Phi)
		if !ok {
			break
		}
		for i, pp := range h.Preds {
			if pp == p {
				subst[ph] = fr.val(ph.Edges[i])
			}
		}
	}
	ord := fr.loopOrd[h]
	// ghost updates of the back edge act on a private copy of the state
	saved := fr.st
	fr.st = fr.st.clone()
	defer func() { fr.st = saved }()
	for _, gs := range spec.Sets {
		fr.applyLoopGhostSet(gs, h, p, subst)
	}
	for _, ai := range fr.autoFrameInvs(h) {
		c.oblige(&Obligation{Name: fr.oblName("inv-step", fmt.Sprintf("loop%d:frame:%s", ord, ai.comp)), Kind: "inv-step", Label: "frame:" + ai.comp,
			PC: cond, Goal: ai.goal(fr.st), Where: fr.fc.Where, Src: "automatic loop frame invariant for component " + ai.comp})
	}
	for _, inv := range spec.Invs {
		e := fr.env(h)
		e.atStart = true
		e.subst = subst
		t, err := e.Bool(inv.E)
		if err != nil {
			fr.bindingFailure(inv, err)
			continue
		}
		c.oblige(&Obligation{Name: fr.oblName("inv-step", fmt.Sprintf("loop%d:%s", ord, inv.Label)), Kind: "inv-step", Label: inv.Label,
			Props: inv.Props, PC: cond, Goal: t, Where: inv.Where, Src: inv.Src})
	}
	if spec.Decreases != nil {
		if d0, ok := fr.loopDecr[h]; ok {
			e := fr.env(h)
			e.atStart = true
			e.subst = subst
			tv, err := e.Value(spec.Decreases.E)
			if err == nil {
				c.oblige(&Obligation{Name: fr.oblName("decreases", fmt.Sprintf("loop%d", ord)), Kind: "decreases", Label: spec.Decreases.Label,
					Props: spec.Decreases.Props, PC: cond, Goal: "(and (>= " + d0 + " 0) (< " + tv.T + " " + d0 + "))", Where: spec.Decreases.Where, Src: spec.Decreases.Src})
			} else {
				fr.bindingFailure(spec.Decreases, err)
			}
		}
	}
}

func (fr *Frame) bindingFailure(cl *Clause, err error) {
	c := fr.c
	c.oblige(&Obligation{Name: fr.oblName("binding", cl.Label), Kind: "binding", Label: cl.Label, Props: cl.Props,
		PC: "true", Goal: "false", Where: cl.Where, Src: cl.Src + "  -- " + err.Error(), Status: "error", Output: "contract does not bind: " + err.Error()})
}

// edge records the condition under which control passes from -> to.
func (fr *Frame) edge(from, to *ssa.BasicBlock, cond Term) {
	g := and(fr.reach[from], cond)
	if isBackEdge(from, to) {
		fr.backEdge(from, to, g)
		return
	}
	e := fr.c.fresh(fr.id+fmt.Sprintf("_edge_%d_%d", from.Index, to.Index), "Bool")
	fr.c.assert("(= " + e + " " + g + ")")
	fr.edges[[2]int{from.Index, to.Index}] = e
}

// nopanic obligation helper
func (fr *Frame) nopanic(label string, goal Term, pos token.Pos) {
	c := fr.c
	if goal == "true" {
		return
	}
	top := fr.topFrame()
	if top.fc != nil && top.fc.Opts["trust-nopanic"] {
		c.assumed["run-time panics are not checked in "+displayName(top.fn)+" (opt trust-nopanic)"] = true
		c.assert(implies(fr.pc, goal))
		return
	}
	ord := fr.topFrame().callOrd["nopanic:"+label]
	fr.topFrame().callOrd["nopanic:"+label] = ord + 1
	c.oblige(&Obligation{Name: fr.oblName("nopanic", fmt.Sprintf("%s#%d", label, ord)), Kind: "nopanic", Label: label,
		PC: fr.pc, Goal: goal, Where: c.P.pos(pos)})
	c.assert(implies(fr.pc, goal))
}

// instr executes one instruction; returns true if the block ended.
func (fr *Frame) instr(in ssa.Instruction) bool {
	c := fr.c
	switch x := in.(type) {
	case *ssa.DebugRef:
		return false
	case *ssa.Alloc:
		el := x.Type().Underlying().(*types.Pointer).Elem()
		r := fr.allocRef(x.Name())
		fr.vals[x] = r
		fr.nonNil[x] = true
		var l *LVal
		if _, ok := structOf(el); ok {
			l = &LVal{structRef: r, ty: el}
		} else if _, ok := el.Underlying().(*types.Array); ok {
			l = &LVal{arrayRef: r, ty: el}
		} else {
			l = &LVal{comp: cellComp(c, el), csort: "(Array Ref " + c.sortOf(el) + ")", idx: []Term{r}, ty: el}
		}
		l.local = !x.Heap
		fr.lv[x] = l
		fr.store(l, c.zero(el))
		fr.freshSyncMaps(r, el)
	case *ssa.FieldAddr:
		base := fr.locOf(x.X)
		fr.checkNonNil(x.X, x.Pos())
		st := x.X.Type().Underlying().(*types.Pointer).Elem()
		sst, _ := structOf(st)
		ft := sst.Field(x.Field).Type()
		var l *LVal
		if base.structRef != "" {
			l = &LVal{comp: fieldComp(st, x.Field), csort: "(Array Ref " + c.sortOf(ft) + ")", idx: []Term{base.structRef}, ty: ft, local: base.local}
		} else if base.comp != "" {
			l = &LVal{comp: base.comp, csort: base.csort, idx: base.idx, path: append(append([]pathStep{}, base.path...), pathStep{st, x.Field}), ty: ft, local: base.local}
		} else {
			c.unsupported("field address of array element in " + displayName(fr.fn))
			l = &LVal{comp: fieldComp(st, x.Field), csort: "(Array Ref " + c.sortOf(ft) + ")", idx: []Term{fr.val(x.X)}, ty: ft}
		}
		fr.lv[x] = l
		fr.nonNil[x] = true
		// pointer value (opaque)
		fp := "fp_" + sanitize(l.comp) + fmt.Sprint(len(l.path))
		for _, ps := range l.path {
			fp += "_" + fmt.Sprint(ps.i)
		}
		{
			var ss []string
			for range l.idx {
				ss = append(ss, "Ref")
			}
			if len(l.idx) == 2 {
				ss[1] = "Int"
			}
			c.fieldPtrFn(fp, ss)
		}
		fr.vals[x] = "(" + fp + " " + strings.Join(l.idx, " ") + ")"
		c.assert("(not (= " + fr.vals[x] + " null))")
	case *ssa.IndexAddr:
		idx := fr.val(x.Index)
		switch u := x.X.Type().Underlying().(type) {
		case *types.Slice:
			s := fr.val(x.X)
			fr.nopanic("index", "(and (<= 0 "+idx+") (< "+idx+" (slen "+s+")))", x.Pos())
			fr.lv[x] = &LVal{comp: elemComp(c, u.Elem()), csort: "(Array Ref (Array Int " + c.sortOf(u.Elem()) + "))",
				idx: []Term{"(sref " + s + ")", "(+ (soff " + s + ") " + idx + ")"}, ty: u.Elem()}
		case *types.Pointer:
			a := u.Elem().Underlying().(*types.Array)
			base := fr.locOf(x.X)
			fr.checkNonNil(x.X, x.Pos())
			fr.nopanic("index", fmt.Sprintf("(and (<= 0 %s) (< %s %d))", idx, idx, a.Len()), x.Pos())
			r := base.arrayRef
			if r == "" {
				c.unsupported("array nested in another object in " + displayName(fr.fn))
				r = fr.val(x.X)
			}
			fr.lv[x] = &LVal{comp: elemComp(c, a.Elem()), csort: "(Array Ref (Array Int " + c.sortOf(a.Elem()) + "))", idx: []Term{r, idx}, ty: a.Elem(), local: base.local}
		}
		fr.nonNil[x] = true
		if !c.declared["elemptr"] {
			c.declared["elemptr"] = true
			c.emit("(declare-fun elemptr (Ref Int) Ref)")
		}
		l := fr.lv[x]
		fr.vals[x] = "(elemptr " + l.idx[0] + " " + l.idx[1] + ")"
	case *ssa.Store:
		l := fr.locOf(x.Addr)
		fr.checkNonNil(x.Addr, x.Pos())
		fr.store(l, fr.val(x.Val))
		if cl, ok := fr.closures[x.Val]; ok {
			_ = cl
		}
	case *ssa.UnOp:
		fr.unop(x)
	case *ssa.BinOp:
		t, ok := fr.pureTerm(x, fr.val)
		if !ok {
			fr.defineFresh(x)
			break
		}
		fr.binopChecks(x)
		fr.define(x, t)
	case *ssa.Convert, *ssa.ChangeType, *ssa.ChangeInterface, *ssa.Field, *ssa.MakeInterface:
		v := in.(ssa.Value)
		t, ok := fr.pureTerm(in, fr.val)
		if !ok {
			n := fr.defineFresh(v)
			if cv, isConv := in.(*ssa.Convert); isConv {
				from, to := c.sortOf(cv.X.Type()), c.sortOf(cv.Type())
				if from == "Str" && to == "Slice" {
					// []byte(s): a fresh slice of the string's length holding its bytes
					c.assert(implies(fr.pc, "(= (slen "+n+") (strlen "+fr.val(cv.X)+"))"))
					c.needStrOfBytes()
					c.assert(implies(fr.pc, "(= (strOfBytes "+n+") "+fr.val(cv.X)+")"))
				}
				if from == "Slice" && to == "Str" {
					c.assert(implies(fr.pc, "(= (strlen "+n+") (slen "+fr.val(cv.X)+"))"))
					c.needStrOfBytes()
					c.assert(implies(fr.pc, "(= "+n+" (strOfBytes "+fr.val(cv.X)+"))"))
				}
			}
			break
		}
		fr.define(v, t)
		if mi, ok := in.(*ssa.MakeInterface); ok {
			c.assert("(not (= " + fr.vals[mi] + " nilI))")
			c.assert(fmt.Sprintf("(= (dynType %s) %d)", fr.vals[mi], c.typeTag(typeKey(mi.X.Type()))))
			if o, ok := fr.origin[mi.X]; ok {
				fr.origin[mi] = o
			}
			if cl, ok := fr.closures[mi.X]; ok {
				fr.closures[mi] = cl
			}
		}
		if ct, ok := in.(*ssa.ChangeType); ok {
			if cl, ok := fr.closures[ct.X]; ok {
				fr.closures[ct] = cl
			}
			if o, ok := fr.origin[ct.X]; ok {
				fr.origin[ct] = o
			}
		}
		if f, ok := in.(*ssa.Field); ok {
			fr.origin[f] = "field:" + typeKey(f.X.Type()) + "." + f.X.Type().Underlying().(*types.Struct).Field(f.Field).Name()
		}
	case *ssa.Extract:
		tup := fr.tuples[x.Tuple]
		if tup == nil || x.Index >= len(tup) {
			fr.defineFresh(x)
		} else {
			fr.vals[x] = tup[x.Index]
		}
		if o, ok := fr.origin[x.Tuple]; ok && x.Index == 0 {
			fr.origin[x] = o
		}
	case *ssa.Slice:
		fr.sliceOp(x)
	case *ssa.MakeMap:
		mt := x.Type().Underlying().(*types.Map)
		r := fr.allocRef(x.Name())
		fr.vals[x] = r
		fr.nonNil[x] = true
		md, _, ml := mapComps(c, mt)
		ks := c.sortOf(mt.Key())
		d := c.comp(fr.st, md, "(Array Ref (Array "+ks+" Bool))")
		c.setComp(fr.st, md, "(store "+d+" "+r+" ((as const (Array "+ks+" Bool)) false))")
		l := c.comp(fr.st, ml, "(Array Ref Int)")
		c.setComp(fr.st, ml, "(store "+l+" "+r+" 0)")
	case *ssa.MakeSlice:
		st := x.Type().Underlying().(*types.Slice)
		r := fr.allocRef(x.Name())
		ln, cp := fr.val(x.Len), fr.val(x.Cap)
		fr.nopanic("makeslice", "(and (<= 0 "+ln+") (<= "+ln+" "+cp+"))", x.Pos())
		name := elemComp(c, st.Elem())
		es := c.sortOf(st.Elem())
		comp := c.comp(fr.st, name, "(Array Ref (Array Int "+es+"))")
		c.setComp(fr.st, name, "(store "+comp+" "+r+" "+c.constArray("Int", es, c.zero(st.Elem()))+")")
		fr.define(x, "(mk_slice "+r+" 0 "+ln+" "+cp+")")
	case *ssa.MakeChan:
		fr.vals[x] = fr.allocRef(x.Name())
		fr.nonNil[x] = true
		if _, ok := c.P.Specs.Pures["ctxChan"]; ok {
			// a channel made by module code is not the Done channel of any context (those are made
			// inside package context and never handed out for sending)
			if !c.declared["pure_ctxChan"] {
				c.declared["pure_ctxChan"] = true
				c.emit("(declare-fun pure_ctxChan (Ref) Bool)")
			}
			c.assert(implies(fr.pc, "(not (pure_ctxChan "+fr.vals[x]+"))"))
			c.assumed["a channel created by make in module code is not the Done channel of a context"] = true
		}
	case *ssa.MakeClosure:
		r := fr.allocRef(x.Name())
		fr.vals[x] = r
		fr.nonNil[x] = true
		fr.closures[x] = &closureVal{fn: x.Fn.(*ssa.Function), bindings: x.Bindings, parent: fr}
	case *ssa.Lookup:
		fr.lookup(x)
	case *ssa.MapUpdate:
		mt := x.Map.Type().Underlying().(*types.Map)
		m := fr.val(x.Map)
		fr.nopanic("nil-map-write", "(not (= "+m+" null))", x.Pos())
		fr.mapStore(mt, m, fr.val(x.Key), fr.val(x.Value))
	case *ssa.Range:
		fr.vals[x] = "unit"
		if mt, ok := x.X.Type().Underlying().(*types.Map); ok {
			name := "RV_" + fr.id + "_" + sanitize(x.Name())
			ks := c.sortOf(mt.Key())
			c.compSort[name] = "(Array " + ks + " Bool)"
			c.compInit[name] = "((as const (Array " + ks + " Bool)) false)"
			fr.st.comps[name] = c.compInit[name]
			fr.rangeVis[x] = name
		}
	case *ssa.Next:
		fr.next(x)
	case *ssa.TypeAssert:
		fr.typeAssert(x)
	case *ssa.Select:
		fr.selectInstr(x)
	case *ssa.Send:
		// no model of channel contents
	case *ssa.Go:
		c.assumed["goroutine bodies are verified separately; effects of spawned goroutines on the spawner's state are not modelled"] = true
	case *ssa.Defer:
		if fr.inLoop(x.Block()) {
			c.unsupported("defer inside a loop in " + displayName(fr.fn))
		}
		var args []Term
		for _, a := range x.Call.Args {
			args = append(args, fr.val(a))
		}
		if x.Call.IsInvoke() {
			args = append([]Term{fr.val(x.Call.Value)}, args...)
		}
		fr.defers = append(fr.defers, &deferRec{instr: x, reach: fr.reach[x.Block()], args: args, block: x.Block(), ord: len(fr.defers)})
	case *ssa.RunDefers:
		for i := len(fr.defers) - 1; i >= 0; i-- {
			d := fr.defers[i]
			if d.block != x.Block() && !reaches(d.block, x.Block()) {
				continue
			}
			g := "true"
			if !d.block.Dominates(x.Block()) {
				g = d.reach
			}
			fr.guarded(g, func() {
				fr.doCall(&d.instr.Call, d.instr, d.args, nil)
			})
		}
	case *ssa.Call:
		fr.callInstr(x)
	case *ssa.Phi:
	case *ssa.Index:
		a := fr.val(x.X)
		if c.sortOf(x.X.Type()) == "Str" {
			c.needStrSub()
			i := fr.val(x.Index)
			fr.nopanic("index", "(and (<= 0 "+i+") (< "+i+" (strlen "+a+")))", x.Pos())
			fr.define(x, "(strat "+a+" "+i+")")
			break
		}
		if at, ok := x.X.Type().Underlying().(*types.Array); ok {
			i := fr.val(x.Index)
			fr.nopanic("index", fmt.Sprintf("(and (<= 0 %s) (< %s %d))", i, i, at.Len()), x.Pos())
		}
		fr.define(x, sel(a, fr.val(x.Index)))
	case *ssa.Panic:
		top := fr.topFrame()
		if top.fc != nil && top.fc.Opts["may-panic"] {
			return true
		}
		fr.nopanic("explicit-panic", "false", x.Pos())
		return true
	case *ssa.Return:
		var rs []Term
		for _, r := range x.Results {
			rs = append(rs, fr.val(r))
		}
		fr.rets = append(fr.rets, retRec{reach: fr.pc, st: fr.st, results: rs, block: x.Block()})
		if fr.top {
			fr.checkEnsures(x, rs)
		}
		return true
	case *ssa.Jump:
		fr.out[x.Block()] = fr.st
		fr.edge(x.Block(), x.Block().Succs[0], "true")
		return true
	case *ssa.If:
		fr.out[x.Block()] = fr.st
		cnd := fr.val(x.Cond)
		fr.edge(x.Block(), x.Block().Succs[0], cnd)
		fr.edge(x.Block(), x.Block().Succs[1], not(cnd))
		return true
	default:
		c.unsupported(fmt.Sprintf("instruction %T in %s", in, displayName(fr.fn)))
		if v, ok := in.(ssa.Value); ok {
			fr.defineFresh(v)
		}
	}
	return false
}

func singleStore(a *ssa.Alloc) *ssa.Store {
	for _, ref := range *a.Referrers() {
		if st, ok := ref.(*ssa.Store); ok && st.Addr == ssa.Value(a) {
			return st
		}
	}
	return nil
}

// instrBefore: a executes before b on every path reaching b
func instrBefore(a, b ssa.Instruction) bool {
	if a.Block() == b.Block() {
		for _, in := range a.Block().Instrs {
			if in == a {
				return true
			}
			if in == b {
				return false
			}
		}
	}
	return a.Block().Dominates(b.Block())
}

func reaches(from, to *ssa.BasicBlock) bool {
	seen := map[*ssa.BasicBlock]bool{}
	var dfs func(b *ssa.BasicBlock) bool
	dfs = func(b *ssa.BasicBlock) bool {
		if b == to {
			return true
		}
		seen[b] = true
		for _, s := range b.Succs {
			if !seen[s] && dfs(s) {
				return true
			}
		}
		return false
	}
	return dfs(from)
}

func (fr *Frame) inLoop(b *ssa.BasicBlock) bool {
	for _, h := range fr.fn.Blocks {
		if fr.isLoopHead(h) && h.Dominates(b) {
			// b in loop of h iff b reaches h
			if reaches(b, h) {
				return true
			}
		}
	}
	return false
}

// guarded executes f under an additional guard g and merges the effects.
func (fr *Frame) guarded(g Term, f func()) {
	if g == "true" {
		f()
		return
	}
	c := fr.c
	before := fr.st.clone()
	savedPC := fr.pc
	fr.pc = and(fr.pc, g)
	f()
	fr.pc = savedPC
	after := fr.st
	merged := c.mergeStates([]Term{g, not(g)}, []*State{after, before})
	fr.st = merged
}

func (fr *Frame) checkNonNil(p ssa.Value, pos token.Pos) {
	if fr.nonNil[p] {
		return
	}
	switch p.(type) {
	case *ssa.Alloc, *ssa.FieldAddr, *ssa.IndexAddr, *ssa.Global, *ssa.FreeVar:
		return
	}
	if _, ok := fr.lv[p]; ok {
		return
	}
	fr.nopanic("nil-deref", "(not (= "+fr.val(p)+" null))", pos)
	fr.nonNil[p] = true
}

func (fr *Frame) unop(x *ssa.UnOp) {
	c := fr.c
	switch x.Op {
	case token.MUL:
		if g, ok := x.X.(*ssa.Global); ok {
			if !c.P.mutGlob[g] {
				el := g.Type().Underlying().(*types.Pointer).Elem()
				fr.vals[x] = c.globalTerm(g.Pkg.Pkg.Path(), g.Name(), el)
				fr.origin[x] = "global:" + g.Pkg.Pkg.Path() + "." + g.Name()
				return
			}
			fr.defineFresh(x)
			return
		}
		if a, ok := x.X.(*ssa.Alloc); ok && a.Parent() == fr.fn && immutableCapture(a) {
			// a variable stored once before any closure captured it and only read by the
			// closures: a load after the store yields the stored value whatever ran in between
			if st := singleStore(a); st != nil && instrBefore(st, x) {
				if v, done := fr.vals[st.Val]; done {
					fr.vals[x] = v
					if cl, ok := fr.closures[st.Val]; ok {
						fr.closures[x] = cl
					} else if cl := fr.cellClosure(a); cl != nil {
						fr.closures[x] = cl
					}
					if fr.nonNil[st.Val] {
						fr.nonNil[x] = true
					}
					fr.c.assumed["a captured variable stored once (in the block that declares it, before any closure captures it) and only read by closures keeps its value"] = true
					return
				}
			}
		}
		if fv, ok := x.X.(*ssa.FreeVar); ok {
			// inlined closure reading a write-once variable of a function on the inline chain
			if a := fr.capturedAlloc(fv); a != nil && immutableCapture(a) {
				for pf := fr.parent; pf != nil; pf = pf.parent {
					if pf.fn == a.Parent() {
						if st := singleStore(a); st != nil {
							if v, done := pf.vals[st.Val]; done {
								fr.vals[x] = v
								if cl, ok := pf.closures[st.Val]; ok {
									fr.closures[x] = cl
								}
								return
							}
						}
					}
				}
			}
			if a := fr.capturedAlloc(fv); a != nil && immutableCapture(a) && isAncestorFn(a.Parent(), fr.topFrame().fn) {
				fr.vals[x] = fr.capConst(a)
				if cl := fr.freeVarClosure(fv); cl != nil {
					fr.closures[x] = cl
				}
				return
			}
		}
		fr.checkNonNil(x.X, x.Pos())
		l := fr.locOf(x.X)
		t := fr.load(l)
		fr.define(x, t)
		for _, f := range c.typeFacts(fr.vals[x], x.Type(), 0) {
			c.assert(implies(fr.pc, f))
		}
		fr.assumeAlive(fr.vals[x], x.Type())
		if fa, ok := x.X.(*ssa.FieldAddr); ok {
			st := fa.X.Type().Underlying().(*types.Pointer).Elem()
			sst, _ := structOf(st)
			fr.origin[x] = "field:" + typeKey(st) + "." + sst.Field(fa.Field).Name()
		}
		// closures stored in cells: remember if the cell holds a known closure
		if a, ok := x.X.(*ssa.Alloc); ok {
			if cl := fr.cellClosure(a); cl != nil {
				fr.closures[x] = cl
			}
		}
		if fv, ok := x.X.(*ssa.FreeVar); ok {
			if cl := fr.freeVarClosure(fv); cl != nil {
				fr.closures[x] = cl
			}
		}
	case token.ARROW:
		ch := fr.val(x.X)
		fr.recvEvent(ch, x.X.Type(), "true")
		if x.CommaOk {
			el := x.Type().(*types.Tuple).At(0).Type()
			v := c.fresh(fr.id+"_recv", c.sortOf(el))
			ok := c.fresh(fr.id+"_recvok", "Bool")
			fr.tuples[x] = []Term{v, ok}
			fr.vals[x] = "unit"
		} else {
			fr.defineFresh(x)
		}
	default:
		t, ok := fr.pureTerm(x, fr.val)
		if !ok {
			fr.defineFresh(x)
			return
		}
		fr.define(x, t)
	}
}

// cellClosure: if an Alloc cell is stored exactly once in the function with a
// MakeClosure value, return it (pattern `var fn F; fn = func...`).
func (fr *Frame) cellClosure(a *ssa.Alloc) *closureVal {
	var found *closureVal
	n := 0
	for _, ref := range *a.Referrers() {
		if st, ok := ref.(*ssa.Store); ok && st.Addr == a {
			n++
			v := st.Val
			if ct, ok := v.(*ssa.ChangeType); ok {
				v = ct.X
			}
			if mc, ok := v.(*ssa.MakeClosure); ok {
				found = &closureVal{fn: mc.Fn.(*ssa.Function), bindings: mc.Bindings, parent: fr}
			}
		}
	}
	if n == 1 {
		return found
	}
	return nil
}

func (fr *Frame) freeVarClosure(fv *ssa.FreeVar) *closureVal {
	// recursive closure referencing itself through its own cell
	p := fr.fn.Parent()
	if p == nil {
		return nil
	}
	if a := fr.capturedAlloc(fv); a != nil {
		pf := &Frame{fn: a.Parent()}
		if cl := pf.cellClosure(a); cl != nil {
			cl.parent = nil
			cl.sibling = fr.topFrame() == fr
			return cl
		}
		return nil
	}
	for _, b := range p.Blocks {
		for _, in := range b.Instrs {
			if a, ok := in.(*ssa.Alloc); ok && a.Comment == fv.Name() && types.Identical(a.Type(), fv.Type()) {
				pf := &Frame{fn: p}
				if cl := pf.cellClosure(a); cl != nil {
					cl.parent = nil
					cl.sibling = fr.topFrame() == fr
					return cl
				}
			}
		}
	}
	return nil
}

func (fr *Frame) recvEvent(ch Term, chT types.Type, guard Term) {
	c := fr.c
	name := chanComp(c, "recvd", chT)
	comp := c.comp(fr.st, name, "(Array Ref Bool)")
	if guard == "true" {
		c.setComp(fr.st, name, "(store "+comp+" "+ch+" true)")
	} else {
		c.setComp(fr.st, name, "(ite "+guard+" (store "+comp+" "+ch+" true) "+comp+")")
	}
}

func (fr *Frame) binopChecks(x *ssa.BinOp) {
	if x.Op == token.QUO || x.Op == token.REM {
		if fr.c.sortOf(x.Type()) == "Int" {
			fr.nopanic("div-by-zero", "(not (= "+fr.val(x.Y)+" 0))", x.Pos())
		}
	}
	top := fr.topFrame()
	if top.fc != nil && top.fc.Opts["overflow"] {
		if lo, hi, ok := intRange(x.Type()); ok {
			switch x.Op {
			case token.ADD, token.SUB, token.MUL:
				t, _ := fr.pureTermRaw(x, fr.val)
				fr.nopanicKind("overflow", "arith", "(and (<= "+lo+" "+t+") (<= "+t+" "+hi+"))", x.Pos())
			}
		}
	}
}

func (fr *Frame) nopanicKind(kind, label string, goal Term, pos token.Pos) {
	c := fr.c
	top := fr.topFrame()
	ord := top.callOrd[kind+":"+label]
	top.callOrd[kind+":"+label] = ord + 1
	c.oblige(&Obligation{Name: fr.oblName(kind, fmt.Sprintf("%s#%d", label, ord)), Kind: kind, Label: label,
		PC: fr.pc, Goal: goal, Where: c.P.pos(pos)})
	c.assert(implies(fr.pc, goal))
}

// pureTerm computes the term of a side-effect-free instruction from operand
// terms. With wrap-around for sized integer arithmetic.
func (fr *Frame) pureTerm(in ssa.Instruction, get func(ssa.Value) Term) (Term, bool) {
	t, ok := fr.pureTermRaw(in, get)
	if !ok {
		return "", false
	}
	if b, isBin := in.(*ssa.BinOp); isBin {
		top := fr.topFrame()
		if top.fc != nil && top.fc.Opts["overflow"] {
			return t, true // overflow is an obligation; value is the mathematical one
		}
		switch b.Op {
		case token.ADD, token.SUB, token.MUL:
			if _, _, sized := intRange(b.Type()); sized {
				return fr.wrap(t, b.Type()), true
			}
		}
	}
	return t, true
}

// wrap models two's-complement wrap-around by an uninterpreted function that
// is the identity on the type's range and always lands in the range (the
// exact wrapped value is not modelled: sound abstraction).
func (fr *Frame) wrap(t Term, ty types.Type) Term {
	c := fr.c
	lo, hi, _ := intRange(ty)
	fn := "wrap_" + sanitize(ty.Underlying().(*types.Basic).Name())
	if !c.declared[fn] {
		c.declared[fn] = true
		c.emit("(declare-fun " + fn + " (Int) Int)")
		c.emit("(assert (forall ((x Int)) (! (and (<= " + lo + " (" + fn + " x)) (<= (" + fn + " x) " + hi + ") (=> (and (<= " + lo + " x) (<= x " + hi + ")) (= (" + fn + " x) x))) :pattern ((" + fn + " x)))))")
	}
	return "(" + fn + " " + t + ")"
}

func (fr *Frame) pureTermRaw(in ssa.Instruction, get func(ssa.Value) Term) (Term, bool) {
	c := fr.c
	switch x := in.(type) {
	case *ssa.BinOp:
		a, b := get(x.X), get(x.Y)
		s := c.sortOf(x.X.Type())
		switch x.Op {
		case token.ADD:
			if s == "Str" {
				return "(strcat " + a + " " + b + ")", true
			}
			return "(+ " + a + " " + b + ")", true
		case token.SUB:
			return "(- " + a + " " + b + ")", true
		case token.MUL:
			return "(* " + a + " " + b + ")", true
		case token.QUO:
			if s == "Real" {
				return "(/ " + a + " " + b + ")", true
			}
			// truncated division
			return fmt.Sprintf("(ite (>= %s 0) (ite (> %s 0) (div %s %s) (- (div %s (- %s)))) (ite (> %s 0) (- (div (- %s) %s)) (div (- %s) (- %s))))", a, b, a, b, a, b, b, a, b, a, b), true
		case token.REM:
			q := fmt.Sprintf("(ite (>= %s 0) (ite (> %s 0) (div %s %s) (- (div %s (- %s)))) (ite (> %s 0) (- (div (- %s) %s)) (div (- %s) (- %s))))", a, b, a, b, a, b, b, a, b, a, b)
			return "(- " + a + " (* " + b + " " + q + "))", true
		case token.EQL, token.NEQ:
			var t Term
			if s == "Slice" {
				// only comparison with nil is legal
				t = "(= (sref " + a + ") (sref " + b + "))"
			} else {
				t = "(= " + a + " " + b + ")"
			}
			if x.Op == token.NEQ {
				t = not(t)
			}
			return t, true
		case token.LSS, token.LEQ, token.GTR, token.GEQ:
			if s == "Str" {
				switch x.Op {
				case token.LEQ:
					return "(strle " + a + " " + b + ")", true
				case token.LSS:
					return "(and (strle " + a + " " + b + ") (not (= " + a + " " + b + ")))", true
				case token.GEQ:
					return "(strle " + b + " " + a + ")", true
				default:
					return "(and (strle " + b + " " + a + ") (not (= " + a + " " + b + ")))", true
				}
			}
			op := map[token.Token]string{token.LSS: "<", token.LEQ: "<=", token.GTR: ">", token.GEQ: ">="}[x.Op]
			return "(" + op + " " + a + " " + b + ")", true
		case token.AND, token.OR, token.XOR, token.SHL, token.SHR, token.AND_NOT:
			if s == "Bool" {
				switch x.Op {
				case token.AND:
					return and(a, b), true
				case token.OR:
					return or(a, b), true
				}
			}
			fn := "bitop_" + map[token.Token]string{token.AND: "and", token.OR: "or", token.XOR: "xor", token.SHL: "shl", token.SHR: "shr", token.AND_NOT: "andnot"}[x.Op]
			if !c.declared[fn] {
				c.declared[fn] = true
				c.emit("(declare-fun " + fn + " (Int Int) Int)")
			}
			return "(" + fn + " " + a + " " + b + ")", true
		}
	case *ssa.UnOp:
		a := get(x.X)
		switch x.Op {
		case token.NOT:
			return not(a), true
		case token.SUB:
			return "(- " + a + ")", true
		case token.XOR:
			if !c.declared["bitop_not"] {
				c.declared["bitop_not"] = true
				c.emit("(declare-fun bitop_not (Int) Int)")
			}
			return "(bitop_not " + a + ")", true
		}
	case *ssa.ChangeType:
		if c.sortOf(x.X.Type()) == c.sortOf(x.Type()) {
			return get(x.X), true
		}
	case *ssa.ChangeInterface:
		return get(x.X), true
	case *ssa.Field:
		return c.fieldOf(x.X.Type(), get(x.X), x.Field), true
	case *ssa.Convert:
		from, to := c.sortOf(x.X.Type()), c.sortOf(x.Type())
		a := get(x.X)
		switch {
		case from == "Int" && to == "Int":
			lo, hi, ok := intRange(x.Type())
			flo, fhi, fok := intRange(x.X.Type())
			if ok && fok && rangeWithin(flo, fhi, lo, hi) {
				return a, true
			}
			if ok {
				return fr.wrap(a, x.Type()), true
			}
			return a, true
		case from == "Int" && to == "Real":
			return "(to_real " + a + ")", true
		case from == "Real" && to == "Int":
			lo, hi, _ := intRange(x.Type())
			tr := "(ite (>= " + a + " 0.0) (to_int " + a + ") (- (to_int (- " + a + "))))"
			return "(ite (and (<= " + lo + " " + tr + ") (<= " + tr + " " + hi + ")) " + tr + " (f2i " + a + "))", true
		case from == "Real" && to == "Real":
			return a, true
		case from == "Str" && to == "Str":
			return a, true
		case from == "Str" && to == "Slice":
			return "", false
		case from == "Slice" && to == "Str":
			return "", false
		}
		if from == to {
			return a, true
		}
	case *ssa.MakeInterface:
		fn := c.boxFn(x.X.Type())
		return "(" + fn + " " + get(x.X) + ")", true
	}
	return "", false
}

func rangeWithin(flo, fhi, lo, hi string) bool {
	// crude comparison through known widths
	width := func(lo, hi string) (int, bool) {
		switch hi {
		case "127":
			return 8, true
		case "255":
			return 8, false
		case "32767":
			return 16, true
		case "65535":
			return 16, false
		case "2147483647":
			return 32, true
		case "4294967295":
			return 32, false
		case "9223372036854775807":
			return 64, true
		}
		return 64, false
	}
	fw, fs := width(flo, fhi)
	tw, ts := width(lo, hi)
	if fs == ts {
		return fw <= tw
	}
	if !fs && ts {
		return fw < tw
	}
	return false
}

func (fr *Frame) sliceOp(x *ssa.Slice) {
	c := fr.c
	lo, hi := "0", ""
	if x.Low != nil {
		lo = fr.val(x.Low)
	}
	switch u := x.X.Type().Underlying().(type) {
	case *types.Slice:
		s := fr.val(x.X)
		if x.High != nil {
			hi = fr.val(x.High)
		} else {
			hi = "(slen " + s + ")"
		}
		mx := "(scap " + s + ")"
		newcap := "(- (scap " + s + ") " + lo + ")"
		if x.Max != nil {
			mx = fr.val(x.Max)
			newcap = "(- " + mx + " " + lo + ")"
		}
		fr.nopanic("slice-bounds", "(and (<= 0 "+lo+") (<= "+lo+" "+hi+") (<= "+hi+" "+mx+") (<= "+mx+" (scap "+s+")))", x.Pos())
		fr.define(x, "(mk_slice (sref "+s+") (+ (soff "+s+") "+lo+") (- "+hi+" "+lo+") "+newcap+")")
	case *types.Basic: // string
		s := fr.val(x.X)
		if x.High != nil {
			hi = fr.val(x.High)
		} else {
			hi = "(strlen " + s + ")"
		}
		fr.nopanic("slice-bounds", "(and (<= 0 "+lo+") (<= "+lo+" "+hi+") (<= "+hi+" (strlen "+s+")))", x.Pos())
		c.needStrSub()
		fr.define(x, "(strsub "+s+" "+lo+" "+hi+")")
	case *types.Pointer:
		a := u.Elem().Underlying().(*types.Array)
		base := fr.locOf(x.X)
		r := base.arrayRef
		if r == "" {
			r = fr.val(x.X)
		}
		n := fmt.Sprint(a.Len())
		if x.High != nil {
			hi = fr.val(x.High)
		} else {
			hi = n
		}
		fr.nopanic("slice-bounds", "(and (<= 0 "+lo+") (<= "+lo+" "+hi+") (<= "+hi+" "+n+"))", x.Pos())
		fr.define(x, "(mk_slice "+r+" "+lo+" (- "+hi+" "+lo+") (- "+n+" "+lo+"))")
		if a.Len() == 1 && x.Low == nil && x.High == nil {
			fr.oneLen[x] = true
		}
	default:
		c.unsupported("slice of " + x.X.Type().String())
		fr.defineFresh(x)
	}
}

func (c *Ctx) needStrSub() {
	if c.declared["strsub"] {
		return
	}
	c.declared["strsub"] = true
	c.emit("(declare-fun strsub (Str Int Int) Str)")
	c.emit("(assert (forall ((s Str) (i Int) (j Int)) (! (=> (and (<= 0 i) (<= i j) (<= j (strlen s))) (= (strlen (strsub s i j)) (- j i))) :pattern ((strsub s i j)))))")
	c.emit("(assert (forall ((s Str)) (! (= (strsub s 0 (strlen s)) s) :pattern ((strsub s 0 (strlen s))))))")
	c.emit("(declare-fun strat (Str Int) Int)")
	c.emit("(assert (forall ((s Str) (i Int)) (! (and (<= 0 (strat s i)) (<= (strat s i) 255)) :pattern ((strat s i)))))")
	c.emit("(assert (forall ((s Str) (i Int) (j Int) (k Int)) (! (=> (and (<= 0 i) (<= i j) (<= j (strlen s)) (<= 0 k) (< k (- j i))) (= (strat (strsub s i j) k) (strat s (+ i k)))) :pattern ((strat (strsub s i j) k)))))")
}

func (fr *Frame) lookup(x *ssa.Lookup) {
	c := fr.c
	mt, ok := x.X.Type().Underlying().(*types.Map)
	if !ok {
		// string index
		c.needStrSub()
		s, i := fr.val(x.X), fr.val(x.Index)
		fr.nopanic("index", "(and (<= 0 "+i+") (< "+i+" (strlen "+s+")))", x.Pos())
		fr.define(x, "(strat "+s+" "+i+")")
		return
	}
	m, k := fr.val(x.X), fr.val(x.Index)
	md, mv, _ := mapComps(c, mt)
	ks, vs := c.sortOf(mt.Key()), c.sortOf(mt.Elem())
	d := c.comp(fr.st, md, "(Array Ref (Array "+ks+" Bool))")
	v := c.comp(fr.st, mv, "(Array Ref (Array "+ks+" "+vs+"))")
	// reading a nil map yields the zero value: nil map has an empty domain
	c.assertNilMapEmpty(fr, mt)
	in := sel(d, m, k)
	valT := "(ite " + in + " " + sel(v, m, k) + " " + c.zero(mt.Elem()) + ")"
	if x.CommaOk {
		vn := c.fresh(fr.id+"_"+x.Name()+"_v", vs)
		c.assert("(= " + vn + " " + valT + ")")
		okn := c.fresh(fr.id+"_"+x.Name()+"_ok", "Bool")
		c.assert("(= " + okn + " " + in + ")")
		fr.tuples[x] = []Term{vn, okn}
		fr.vals[x] = "unit"
		fr.assumeAlive(vn, mt.Elem())
		for _, f := range c.typeFacts(vn, mt.Elem(), 0) {
			c.assert(implies(fr.pc, f))
		}
		return
	}
	fr.define(x, valT)
	fr.assumeAlive(fr.vals[x], mt.Elem())
	for _, f := range c.typeFacts(fr.vals[x], mt.Elem(), 0) {
		c.assert(implies(fr.pc, f))
	}
}

func (c *Ctx) assertNilMapEmpty(fr *Frame, mt *types.Map) {
	md, _, ml := mapComps(c, mt)
	ks := c.sortOf(mt.Key())
	d := c.comp(fr.st, md, "(Array Ref (Array "+ks+" Bool))")
	l := c.comp(fr.st, ml, "(Array Ref Int)")
	key := "nilmap:" + d
	if c.declared[key] {
		return
	}
	c.declared[key] = true
	c.assert("(forall ((k " + ks + ")) (not (select (select " + d + " null) k)))")
	c.assert("(= (select " + l + " null) 0)")
}

// lenAxioms states, for the current (domain, length) pair of a map type, that
// the length counter is consistent with the domain: len >= 0 and a member
// implies len > 0 (quantified; these create no new terms). Witness facts
// (len > 0 yields a member, len > 1 yields two distinct members, two distinct
// members imply len > 1) are stated only for the particular map term whose
// length is taken, to keep quantifier instantiation finite.
func (c *Ctx) lenAxioms(st *State, mt *types.Map, m Term) {
	md, _, ml := mapComps(c, mt)
	ks := c.sortOf(mt.Key())
	d := c.comp(st, md, "(Array Ref (Array "+ks+" Bool))")
	l := c.comp(st, ml, "(Array Ref Int)")
	key := "lenax:" + d + ":" + l
	if !c.declared[key] {
		c.declared[key] = true
		c.assert("(forall ((m Ref)) (! (and (>= (select " + l + " m) 0) (<= (select " + l + " m) 9223372036854775807)) :pattern ((select " + l + " m))))")
		c.assert("(forall ((m Ref) (k " + ks + ")) (! (=> (select (select " + d + " m) k) (> (select " + l + " m) 0)) :pattern ((select (select " + d + " m) k))))")
		c.assumed["len(map) is modelled by a counter kept consistent with the domain (len >= 0; len > 0 iff some key is present; len > 1 iff two distinct keys are present)"] = true
	}
	if m == "" || strings.Contains(m, "q_") {
		return
	}
	wkey := key + ":" + m
	if c.declared[wkey] {
		return
	}
	c.declared[wkey] = true
	w1 := c.fresh("lenwit", ks)
	w2 := c.fresh("lenwit", ks)
	ln := "(select " + l + " " + m + ")"
	dom := "(select " + d + " " + m + ")"
	c.assert("(=> (> " + ln + " 0) (select " + dom + " " + w1 + "))")
	c.assert("(=> (> " + ln + " 1) (and (select " + dom + " " + w1 + ") (select " + dom + " " + w2 + ") (not (= " + w1 + " " + w2 + "))))")
	c.assert("(forall ((k1 " + ks + ") (k2 " + ks + ")) (! (=> (and (select " + dom + " k1) (select " + dom + " k2) (not (= k1 k2))) (> " + ln + " 1)) :pattern ((select " + dom + " k1) (select " + dom + " k2))))")
}

func (fr *Frame) mapLenFacts(mt *types.Map, m Term) { fr.c.lenAxioms(fr.st, mt, m) }

func (fr *Frame) mapStore(mt *types.Map, m, k, v Term) {
	c := fr.c
	md, mv, ml := mapComps(c, mt)
	ks, vs := c.sortOf(mt.Key()), c.sortOf(mt.Elem())
	d := c.comp(fr.st, md, "(Array Ref (Array "+ks+" Bool))")
	vv := c.comp(fr.st, mv, "(Array Ref (Array "+ks+" "+vs+"))")
	l := c.comp(fr.st, ml, "(Array Ref Int)")
	was := sel(d, m, k)
	c.setComp(fr.st, ml, "(store "+l+" "+m+" (ite "+was+" "+sel(l, m)+" (+ "+sel(l, m)+" 1)))")
	c.setComp(fr.st, md, storeN(d, []Term{m, k}, "true"))
	c.setComp(fr.st, mv, storeN(vv, []Term{m, k}, v))
}

func (fr *Frame) mapDelete(mt *types.Map, m, k Term) {
	c := fr.c
	md, _, ml := mapComps(c, mt)
	ks := c.sortOf(mt.Key())
	d := c.comp(fr.st, md, "(Array Ref (Array "+ks+" Bool))")
	l := c.comp(fr.st, ml, "(Array Ref Int)")
	was := sel(d, m, k)
	// delete on a nil map is a no-op
	c.setComp(fr.st, ml, "(ite (= "+m+" null) "+l+" (store "+l+" "+m+" (ite "+was+" (- "+sel(l, m)+" 1) "+sel(l, m)+")))")
	c.setComp(fr.st, md, "(ite (= "+m+" null) "+d+" "+storeN(d, []Term{m, k}, "false")+")")
}

func (fr *Frame) next(x *ssa.Next) {
	c := fr.c
	rg := x.Iter.(*ssa.Range)
	mt, ok := rg.X.Type().Underlying().(*types.Map)
	tup := x.Type().(*types.Tuple)
	okT := c.fresh(fr.id+"_"+x.Name()+"_ok", "Bool")
	if !ok {
		// string iteration: unconstrained
		k := c.fresh(fr.id+"_"+x.Name()+"_k", "Int")
		v := c.fresh(fr.id+"_"+x.Name()+"_v", "Int")
		fr.tuples[x] = []Term{okT, k, v}
		fr.vals[x] = "unit"
		return
	}
	// syntactic check: the ranged map is not grown inside the loop through the same SSA value
	for _, b := range fr.fn.Blocks {
		if x.Block().Dominates(b) && reaches(b, x.Block()) {
			for _, in := range b.Instrs {
				if mu, ok := in.(*ssa.MapUpdate); ok && mu.Map == rg.X {
					c.unsupported("map updated while ranged over in " + displayName(fr.fn))
				}
			}
		}
	}
	c.assumed["a map is not grown (through an alias) while it is ranged over"] = true
	ks, vs := c.sortOf(mt.Key()), c.sortOf(mt.Elem())
	m := fr.val(rg.X)
	md, mv, _ := mapComps(c, mt)
	d := c.comp(fr.st, md, "(Array Ref (Array "+ks+" Bool))")
	vv := c.comp(fr.st, mv, "(Array Ref (Array "+ks+" "+vs+"))")
	c.assertNilMapEmpty(fr, mt)
	visName := fr.rangeVis[rg]
	vis := c.comp(fr.st, visName, "(Array "+ks+" Bool)")
	k := c.fresh(fr.id+"_"+x.Name()+"_k", ks)
	c.assert(implies(fr.pc, "(=> "+okT+" (and "+sel(d, m, k)+" (not (select "+vis+" "+k+"))))"))
	c.assert(implies(fr.pc, "(=> (not "+okT+") (forall ((kk "+ks+")) (! (=> "+sel(d, m, "kk")+" (select "+vis+" kk)) :pattern ("+sel(d, m, "kk")+"))))"))
	c.setComp(fr.st, visName, "(ite "+okT+" (store "+vis+" "+k+" true) "+vis+")")
	for _, f := range c.typeFacts(k, mt.Key(), 0) {
		c.assert(implies(fr.pc, f))
	}
	var v Term = "unit"
	if tup.Len() > 2 && tup.At(2).Type() != types.Typ[types.Invalid] {
		v = c.fresh(fr.id+"_"+x.Name()+"_v", vs)
		c.assert("(= " + v + " " + sel(vv, m, k) + ")")
		fr.assumeAlive(v, mt.Elem())
	}
	fr.tuples[x] = []Term{okT, k, v}
	fr.vals[x] = "unit"
}

func (fr *Frame) typeAssert(x *ssa.TypeAssert) {
	c := fr.c
	v := fr.val(x.X)
	var okT, valT Term
	if _, isIface := x.AssertedType.Underlying().(*types.Interface); isIface {
		fn := fmt.Sprintf("impl_t%d", c.typeTag("iface:"+typeKey(x.AssertedType)))
		if !c.declared[fn] {
			c.declared[fn] = true
			c.emit("(declare-fun " + fn + " (Int) Bool)")
			c.emit("(assert (not (" + fn + " 0)))")
		}
		okT = "(" + fn + " (dynType " + v + "))"
		valT = v
	} else {
		key := typeKey(x.AssertedType)
		okT = fmt.Sprintf("(= (dynType %s) %d)", v, c.typeTag(key))
		fn := c.boxFn(x.AssertedType)
		valT = "(un" + fn + " " + v + ")"
	}
	if x.CommaOk {
		okn := c.fresh(fr.id+"_"+x.Name()+"_ok", "Bool")
		c.assert("(= " + okn + " " + okT + ")")
		vn := c.fresh(fr.id+"_"+x.Name()+"_v", c.sortOf(x.AssertedType))
		c.assert(implies(okn, "(= "+vn+" "+valT+")"))
		c.assert(implies(not(okn), "(= "+vn+" "+c.zero(x.AssertedType)+")"))
		fr.tuples[x] = []Term{vn, okn}
		fr.vals[x] = "unit"
		return
	}
	fr.nopanic("type-assert", okT, x.Pos())
	fr.define(x, valT)
}

func (fr *Frame) selectInstr(x *ssa.Select) {
	c := fr.c
	idx := c.fresh(fr.id+"_"+x.Name()+"_idx", "Int")
	n := len(x.States)
	if x.Blocking {
		c.assert(fmt.Sprintf("(and (<= 0 %s) (< %s %d))", idx, idx, n))
	} else {
		c.assert(fmt.Sprintf("(and (<= (- 1) %s) (< %s %d))", idx, idx, n))
	}
	recvOk := c.fresh(fr.id+"_"+x.Name()+"_recvok", "Bool")
	tup := []Term{idx, recvOk}
	for i, s := range x.States {
		if s.Dir == types.RecvOnly {
			ch := fr.val(s.Chan)
			fr.recvEvent(ch, s.Chan.Type(), fmt.Sprintf("(= %s %d)", idx, i))
			el := s.Chan.Type().Underlying().(*types.Chan).Elem()
			tup = append(tup, c.fresh(fr.id+"_"+x.Name()+fmt.Sprintf("_r%d", i), c.sortOf(el)))
		}
	}
	fr.tuples[x] = tup
	fr.vals[x] = "unit"
}

// applyLoopGhostSet performs a ghost update on a back edge: plain names denote
// the values at the loop head of this iteration, next.x the values the next
// iteration starts with; heap reads see the state at the back edge.
func (fr *Frame) applyLoopGhostSet(gs *GhostSet, h, from *ssa.BasicBlock, subst map[ssa.Value]Term) {
	c := fr.c
	g, ok := c.P.Specs.Ghosts[gs.Name]
	if !ok {
		c.unsupported("loop ghost set of unknown ghost " + gs.Name)
		return
	}
	e := fr.env(from)
	e.loopHead = h
	e.subst = map[ssa.Value]Term{}
	for _, in := range h.Instrs {
		if ph, ok := in.(*ssa.Phi); ok {
			e.subst[ph] = fr.vals[ph]
		}
	}
	ne := fr.env(h)
	ne.subst = subst
	e.next = ne
	cl := &Clause{Label: "loop-set-" + gs.Name, Src: gs.Src, Where: fr.fc0().Where}
	val, err := e.Value(gs.Val)
	if err != nil {
		fr.bindingFailure(cl, err)
		return
	}
	var idx []Term
	for _, a := range gs.Args {
		tv, err := e.Value(a)
		if err != nil {
			fr.bindingFailure(cl, err)
			return
		}
		idx = append(idx, tv.T)
	}
	s, _, gres := e.ghostSort(g)
	if val.IsNil && gres.Ty != nil {
		val = e.coerceNil(val, gres.Ty)
	}
	name := ghostCompName(g)
	cur := c.comp(fr.st, name, s)
	c.setComp(fr.st, name, storeN(cur, idx, val.T))
}

type autoInv struct {
	comp string
	goal func(st *State) Term
}

// autoFrameInvs: for a function with a declared modifies set, every loop
// carries the frame of the components it modifies: rows of objects that
// existed at function entry and are not among the declared objects keep their
// entry value.
func (fr *Frame) autoFrameInvs(h *ssa.BasicBlock) []autoInv {
	c := fr.c
	if !fr.top || fr.fc == nil || !fr.fc.HasMod || c.dry {
		return nil
	}
	if fr.fc.Opts["trust-frame"] {
		return nil
	}
	if fr.declMods == nil {
		return nil
	}
	if fr.declMods["all"] != nil {
		return nil
	}
	mods := c.loopMods[fr.loopKey(h)]
	var names []string
	for n := range mods {
		names = append(names, n)
	}
	sort.Strings(names)
	entryAlloc := fr.entry.comps["alloc"]
	if entryAlloc == "" {
		entryAlloc = c.compInit["alloc"]
	}
	var out []autoInv
	for _, n := range names {
		n := n
		if n == "alloc" || n == "held" || strings.HasPrefix(n, "RV_") || strings.HasPrefix(n, "recvd") || strings.HasPrefix(n, "closed") || c.isLocalGhostComp(n) {
			continue
		}
		at, declared := fr.declMods[n]
		if declared && len(at) == 0 {
			continue // whole component may change
		}
		srt := c.compSort[n]
		ent, ok := fr.entry.comps[n]
		if !ok {
			ent = c.compInit[n]
		}
		if !strings.HasPrefix(srt, "(Array Ref ") {
			if _, isNew := fr.declMods["new:"+n]; isNew {
				continue
			}
			out = append(out, autoInv{n, func(st *State) Term { return "(= " + st.comps[n] + " " + ent + ")" }})
			continue
		}
		hyp := []Term{"(select " + entryAlloc + " r)"}
		for _, t := range at {
			hyp = append(hyp, "(not (= r "+t+"))")
		}
		out = append(out, autoInv{n, func(st *State) Term {
			return "(forall ((r Ref)) (! (=> " + and(hyp...) + " (= (select " + st.comps[n] + " r) (select " + ent + " r))) :pattern ((select " + st.comps[n] + " r))))"
		}})
	}
	return out
}

// freshSyncMaps: a sync.Map embedded in a freshly allocated struct is empty.
func (fr *Frame) freshSyncMaps(ref Term, t types.Type) {
	c := fr.c
	st, ok := structOf(t)
	if !ok {
		return
	}
	g, ok := c.P.Specs.Ghosts["syncHas"]
	if !ok {
		return
	}
	for i := 0; i < st.NumFields(); i++ {
		if typeKey(st.Field(i).Type()) != "sync.Map" {
			continue
		}
		fp := c.fieldPtrFn("fp_"+sanitize(fieldComp(t, i))+"0", []string{"Ref"})
		e := fr.env(fr.curBlock)
		s, _, _ := e.ghostSort(g)
		comp := c.comp(fr.st, ghostCompName(g), s)
		c.assert("(forall ((k Iface)) (! (not (select (select " + comp + " (" + fp + " " + ref + ")) k)) :pattern ((select (select " + comp + " (" + fp + " " + ref + ")) k))))")
		c.assumed["a sync.Map inside a freshly allocated struct is empty"] = true
	}
}

func (c *Ctx) needStrOfBytes() {
	if !c.declared["strOfBytes"] {
		c.declared["strOfBytes"] = true
		c.emit("(declare-fun strOfBytes (Slice) Str)")
		c.assumed["string <-> []byte conversions are related by an uninterpreted content function (the byte slice is not mutated in between)"] = true
	}
}
