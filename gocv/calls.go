package main

import (
	"fmt"
	"go/constant"
	"go/token"
	"go/types"
	"sort"
	"strings"

	"golang.org/x/tools/go/ssa"
)

func (fr *Frame) callInstr(x *ssa.Call) {
	var args []Term
	if x.Call.IsInvoke() {
		args = append(args, fr.val(x.Call.Value))
	}
	for _, a := range x.Call.Args {
		args = append(args, fr.val(a))
	}
	res := fr.doCall(&x.Call, x, args, x)
	sig := x.Call.Signature()
	switch sig.Results().Len() {
	case 0:
		fr.vals[x] = "unit"
	case 1:
		if len(res) == 1 {
			fr.vals[x] = res[0]
		} else {
			fr.defineFresh(x)
		}
	default:
		if len(res) == sig.Results().Len() {
			fr.tuples[x] = res
			fr.vals[x] = "unit"
		} else {
			var ts []Term
			for i := 0; i < sig.Results().Len(); i++ {
				ts = append(ts, fr.freshOfType("res", sig.Results().At(i).Type()))
			}
			fr.tuples[x] = ts
			fr.vals[x] = "unit"
		}
	}
}

func (fr *Frame) freshOfType(prefix string, t types.Type) Term {
	c := fr.c
	n := c.fresh(fr.id+"_"+prefix, c.sortOf(t))
	for _, f := range c.typeFacts(n, t, 0) {
		c.assert(implies(fr.pc, f))
	}
	fr.assumeAlive(n, t)
	return n
}

// calleeNames returns the names a `call <pattern>` clause may use for this call.
func (fr *Frame) calleeNames(cc *ssa.CallCommon) []string {
	var out []string
	if cc.IsInvoke() {
		m := cc.Method
		out = append(out, "."+m.Name(), m.Name())
		if recv := m.Type().(*types.Signature).Recv(); recv != nil {
			if n, ok := recv.Type().(*types.Named); ok {
				out = append(out, n.Obj().Name()+"."+m.Name())
				if n.Obj().Pkg() != nil {
					out = append(out, n.Obj().Pkg().Name()+"."+n.Obj().Name()+"."+m.Name())
				}
			}
		}
		// receiver expression name, e.g. dst.Exists
		if nm := fr.sourceName(cc.Value); nm != "" {
			out = append(out, nm+"."+m.Name())
		}
		return out
	}
	switch v := cc.Value.(type) {
	case *ssa.Builtin:
		return []string{v.Name()}
	case *ssa.Function:
		if o := v.Origin(); o != nil {
			// generic instance: also match by the origin's plain name
			out = append(out, o.Name(), displayName(o))
			if o.Pkg != nil {
				out = append(out, o.Pkg.Pkg.Name()+"."+o.Name())
			}
		}
		out = append(out, v.Name())
		dn := displayName(v)
		out = append(out, dn)
		if v.Pkg != nil {
			out = append(out, v.Pkg.Pkg.Name()+"."+v.Name())
		}
		if v.Signature.Recv() != nil {
			// (*T).M, T.M, .M
			out = append(out, "."+v.Name())
			rt := v.Signature.Recv().Type()
			if p, ok := rt.(*types.Pointer); ok {
				rt = p.Elem()
			}
			if n, ok := rt.(*types.Named); ok {
				out = append(out, n.Obj().Name()+"."+v.Name(), "(*"+n.Obj().Name()+")."+v.Name())
				if n.Obj().Pkg() != nil {
					out = append(out, n.Obj().Pkg().Name()+"."+n.Obj().Name()+"."+v.Name())
				}
			}
		}
		return out
	case *ssa.MakeClosure:
		f := v.Fn.(*ssa.Function)
		return []string{f.Name(), displayName(f)}
	}
	// dynamic call through a func value: use its source name / origin
	if nm := fr.sourceName(cc.Value); nm != "" {
		out = append(out, nm)
	}
	if o, ok := fr.origin[cc.Value]; ok && strings.HasPrefix(o, "field:") {
		f := o[strings.LastIndex(o, ".")+1:]
		out = append(out, "."+f, f)
		if nm := fr.fieldBaseName(cc.Value); nm != "" {
			out = append(out, nm+"."+f)
		}
	}
	return out
}

func (fr *Frame) fieldBaseName(v ssa.Value) string {
	if u, ok := v.(*ssa.UnOp); ok {
		if fa, ok := u.X.(*ssa.FieldAddr); ok {
			return fr.sourceName(fa.X)
		}
	}
	if f, ok := v.(*ssa.Field); ok {
		return fr.sourceName(f.X)
	}
	return ""
}

// sourceName finds a source-level name for an SSA value.
func (fr *Frame) sourceName(v ssa.Value) string {
	switch x := v.(type) {
	case *ssa.Parameter:
		return x.Name()
	case *ssa.FreeVar:
		return x.Name()
	case *ssa.Alloc:
		return x.Comment
	case *ssa.Phi:
		return x.Comment
	case *ssa.UnOp:
		if x.Op == token.MUL {
			switch a := x.X.(type) {
			case *ssa.Alloc:
				return a.Comment
			case *ssa.FreeVar:
				return a.Name()
			case *ssa.FieldAddr:
				b := fr.sourceName(a.X)
				st := a.X.Type().Underlying().(*types.Pointer).Elem()
				sst, _ := structOf(st)
				if b != "" {
					return b + "." + sst.Field(a.Field).Name()
				}
			}
		}
	case *ssa.MakeInterface:
		return fr.sourceName(x.X)
	case *ssa.ChangeInterface:
		return fr.sourceName(x.X)
	}
	return ""
}

func matchPattern(pat string, names []string) bool {
	for _, alt := range strings.Split(pat, "|") {
		for _, n := range names {
			if n == alt {
				return true
			}
		}
	}
	return false
}

// doCall performs a call (normal or deferred). site is the instruction for
// positions; callVal non-nil for regular calls.
func (fr *Frame) doCall(cc *ssa.CallCommon, site ssa.Instruction, args []Term, callVal *ssa.Call) []Term {
	c := fr.c
	top := fr.topFrame()
	names := fr.calleeNames(cc)
	sig := cc.Signature()
	// ---- site-specific requires from the enclosing contract (top frame's contract only
	// applies to calls syntactically in the top function or in inlined closures of it)
	var sites []*CallSpec
	ordKey := "call:" + firstOr(names, "?")
	ord := top.callOrd[ordKey]
	top.callOrd[ordKey] = ord + 1
	fc := fr.siteContract()
	orphanOnly := false
	if fc == nil && fr.parent != nil && fr.fn.Parent() == nil && top.fc != nil {
		// an inlined helper without a contract of its own: a call clause of the function under
		// contract that matches no call in that function's own body (the lines were moved into the
		// helper) follows the code here; clauses that do match there stay confined to it
		fc = top.fc
		orphanOnly = true
	}
	if fc != nil {
		// a pattern `name#k` addresses the k-th call of that name (in order of first execution)
		var onames []string
		for _, n := range names {
			onames = append(onames, n, fmt.Sprintf("%s#%d", n, ord))
		}
		for _, cs := range fc.Calls {
			if orphanOnly && top.patternSeen(barePattern(cs.Pattern)) {
				continue
			}
			if matchPattern(cs.Pattern, onames) {
				sites = append(sites, cs)
				if top.patHit == nil {
					top.patHit = map[string]bool{}
				}
				top.patHit[cs.Pattern] = true
			}
		}
	}
	argBind := fr.argBindings(cc, args)
	for _, cs := range sites {
		for _, rq := range cs.Requires {
			e := fr.env(site.Block())
			for k, v := range argBind {
				e.bind["args."+k] = v
			}
			t, err := e.Bool(rq.E)
			if err != nil {
				fr.bindingFailure(rq, err)
				continue
			}
			c.oblige(&Obligation{Name: fr.oblName("call", fmt.Sprintf("%s#%d/requires:%s", firstOr(names, "?"), ord, rq.Label)), Kind: "call-requires",
				Label: rq.Label, Props: rq.Props, PC: fr.pc, Goal: t, Where: c.P.pos(site.Pos()) + " (" + rq.Where + ")", Src: rq.Src})
			c.assert(implies(fr.pc, t))
		}
	}
	pre := fr.st.clone()
	res := fr.doCallInner(cc, site, args, names)
	// ---- ghost sets / assumes after the call
	for _, cs := range sites {
		for _, gs := range cs.Sets {
			fr.applyGhostSet(gs, site, argBind, res, sig, pre)
		}
		for _, as := range cs.Assumes {
			e := fr.env(site.Block())
			e.old = pre
			for k, v := range argBind {
				e.bind["args."+k] = v
			}
			fr.bindResults(e, sig, res, nil)
			t, err := e.Bool(as.E)
			if err != nil {
				fr.bindingFailure(as, err)
				continue
			}
			c.assert(implies(fr.pc, t))
			c.assumed["assumed after call "+cs.Pattern+" in "+displayName(top.fn)+": "+as.Src] = true
		}
	}
	return res
}

func firstOr(xs []string, d string) string {
	if len(xs) > 0 {
		return xs[0]
	}
	return d
}

// siteContract: the contract whose `call` clauses apply to calls in this frame.
func (fr *Frame) siteContract() *FuncContract {
	if fr.fc != nil {
		return fr.fc
	}
	// inlined closure of the top function: the parent's call clauses apply
	f := fr
	for f != nil {
		if f.fc != nil && fr.fn.Parent() != nil && isAncestorFn(f.fn, fr.fn) {
			return f.fc
		}
		f = f.parent
	}
	return nil
}

func isAncestorFn(anc, fn *ssa.Function) bool {
	for p := fn.Parent(); p != nil; p = p.Parent() {
		if p == anc {
			return true
		}
	}
	return false
}

func (fr *Frame) argBindings(cc *ssa.CallCommon, args []Term) map[string]TV {
	out := fr.argBindings0(cc, args)
	if f, ok := cc.Value.(*ssa.Function); ok {
		// parameters that were only renamed since the baseline stay reachable under the old name
		for o, ns := range fr.c.P.renamesFor(f) {
			for _, n := range ns {
				if tv, has := out[n]; has && n != o {
					if _, taken := out[o]; !taken {
						out[o] = tv
					}
				}
			}
		}
	}
	return out
}

func (fr *Frame) argBindings0(cc *ssa.CallCommon, args []Term) map[string]TV {
	out := map[string]TV{}
	sig := cc.Signature()
	i := 0
	if cc.IsInvoke() {
		out["self"] = TV{T: args[0], Ty: cc.Value.Type()}
		i = 1
	} else if f, ok := cc.Value.(*ssa.Function); ok && f.Signature.Recv() != nil && len(args) > 0 {
		out["self"] = TV{T: args[0], Ty: cc.Args[0].Type()}
		if len(f.Params) > 0 {
			out[f.Params[0].Name()] = out["self"]
		}
		i = 1
		for j := 0; j+1 < len(f.Params) && j+i < len(args); j++ {
			out[f.Params[j+1].Name()] = TV{T: args[j+i], Ty: f.Params[j+1].Type()}
			out[fmt.Sprintf("arg%d", j)] = out[f.Params[j+1].Name()]
		}
		if len(f.Params) == 0 {
			// a method without a body (other module): names come from the signature and the contract
			if rv := f.Signature.Recv(); rv != nil && rv.Name() != "" && rv.Name() != "_" {
				out[rv.Name()] = out["self"]
			}
			for j := 0; j < sig.Params().Len() && j+i < len(args); j++ {
				p := sig.Params().At(j)
				tv := TV{T: args[j+i], Ty: p.Type()}
				if p.Name() != "" && p.Name() != "_" {
					out[p.Name()] = tv
				}
				out[fmt.Sprintf("arg%d", j)] = tv
			}
		}
		return out
	}
	for j := 0; j < sig.Params().Len() && j+i < len(args); j++ {
		p := sig.Params().At(j)
		tv := TV{T: args[j+i], Ty: p.Type()}
		if p.Name() != "" && p.Name() != "_" {
			out[p.Name()] = tv
		}
		out[fmt.Sprintf("arg%d", j)] = tv
	}
	if f, ok := cc.Value.(*ssa.Function); ok {
		for j, p := range f.Params {
			if j < len(args) {
				out[p.Name()] = TV{T: args[j], Ty: p.Type()}
			}
		}
	}
	return out
}

func (fr *Frame) bindResults(e *Env, sig *types.Signature, res []Term, named []string) {
	n := sig.Results().Len()
	for i := 0; i < n && i < len(res); i++ {
		tv := TV{T: res[i], Ty: sig.Results().At(i).Type()}
		e.bind[fmt.Sprintf("result%d", i)] = tv
		if n == 1 {
			e.bind["result"] = tv
		}
		if nm := sig.Results().At(i).Name(); nm != "" && nm != "_" {
			if _, exists := e.bind[nm]; !exists {
				e.bind[nm] = tv
			}
		}
	}
}

func (fr *Frame) applyGhostSet(gs *GhostSet, site ssa.Instruction, argBind map[string]TV, res []Term, sig *types.Signature, pre *State) {
	c := fr.c
	g, ok := c.P.Specs.Ghosts[gs.Name]
	if !ok {
		c.unsupported("ghost set of unknown ghost " + gs.Name)
		return
	}
	e := fr.env(site.Block())
	e.old = pre
	for k, v := range argBind {
		e.bind["args."+k] = v
	}
	fr.bindResults(e, sig, res, nil)
	val, err := e.Value(gs.Val)
	if err != nil {
		fr.bindingFailure(&Clause{Label: "set-" + gs.Name, Src: gs.Src, Where: fr.fc0().Where}, err)
		return
	}
	var idx []Term
	for _, a := range gs.Args {
		tv, err := e.Value(a)
		if err != nil {
			fr.bindingFailure(&Clause{Label: "set-" + gs.Name, Src: gs.Src, Where: fr.fc0().Where}, err)
			return
		}
		idx = append(idx, tv.T)
	}
	s, _, gres := e.ghostSort(g)
	if val.IsNil && gres.Ty != nil {
		val = e.coerceNil(val, gres.Ty)
	}
	name := ghostCompName(g)
	cur := c.comp(fr.st, name, s)
	nv := storeN(cur, idx, val.T)
	if fr.pc != "true" {
		// the update happens only on this path; state merging handles the rest
	}
	c.setComp(fr.st, name, nv)
}

func (fr *Frame) fc0() *FuncContract {
	if fc := fr.siteContract(); fc != nil {
		return fc
	}
	return &FuncContract{}
}

func (fr *Frame) doCallInner(cc *ssa.CallCommon, site ssa.Instruction, args []Term, names []string) []Term {
	c := fr.c
	sig := cc.Signature()
	// builtins
	if b, ok := cc.Value.(*ssa.Builtin); ok {
		return fr.builtin(b, cc, site, args)
	}
	// invoke
	if cc.IsInvoke() {
		fr.nopanic("nil-iface-call", "(not (= "+args[0]+" nilI))", site.Pos())
		key := "iface:" + ifaceMethodKey(cc.Method)
		if fcx, ok := c.P.Specs.Funcs[key]; ok {
			return fr.applyContract(fcx, nil, sig, cc, site, args, names)
		}
		// statically known dynamic type?
		if mi, ok := cc.Value.(*ssa.MakeInterface); ok {
			if m := c.P.SSA.LookupMethod(mi.X.Type(), cc.Method.Pkg(), cc.Method.Name()); m != nil {
				nargs := append([]Term{fr.val(mi.X)}, args[1:]...)
				return fr.callFunction(m, nil, sig, cc, site, nargs, names)
			}
		}
		return fr.defaultCall(nil, sig, cc, site, args, names)
	}
	// static callee
	if f := cc.StaticCallee(); f != nil {
		var cl *closureVal
		if mc, ok := cc.Value.(*ssa.MakeClosure); ok {
			cl = fr.closures[mc]
		}
		return fr.callFunction(f, cl, sig, cc, site, args, names)
	}
	// dynamic call through a function value
	if cl, ok := fr.closures[cc.Value]; ok {
		return fr.callFunction(cl.fn, cl, sig, cc, site, args, names)
	}
	// a function value that is one of several known closures (`f := a; if c { f = b }; f()`):
	// one call per alternative, under the condition that the value is that closure
	if ph, ok := cc.Value.(*ssa.Phi); ok {
		var cls []*closureVal
		var vals []Term
		for _, e := range ph.Edges {
			v := e
			if ct, ok := v.(*ssa.ChangeType); ok {
				v = ct.X
			}
			cl, ok := fr.closures[v]
			if !ok {
				cls = nil
				break
			}
			cls = append(cls, cl)
			vals = append(vals, fr.val(e))
		}
		if len(cls) > 1 {
			pre := fr.st
			savedPC := fr.pc
			pv := fr.val(ph)
			var guards []Term
			var sts []*State
			var ress [][]Term
			for i, cl := range cls {
				g := "(= " + pv + " " + vals[i] + ")"
				fr.pc = and(savedPC, g)
				fr.st = pre.clone()
				rs := fr.callFunction(cl.fn, cl, sig, cc, site, args, names)
				guards = append(guards, g)
				sts = append(sts, fr.st)
				ress = append(ress, rs)
			}
			fr.pc = savedPC
			c.assert(implies(savedPC, or(guards...)))
			fr.st = c.mergeStates(guards, sts)
			var out []Term
			for i := 0; i < sig.Results().Len(); i++ {
				n := c.fresh(fr.id+"_dyn_r", c.sortOf(sig.Results().At(i).Type()))
				for k := range cls {
					if i < len(ress[k]) {
						c.assert(implies(guards[k], "(= "+n+" "+ress[k][i]+")"))
					}
				}
				out = append(out, n)
			}
			return out
		}
	}
	fr.nopanic("nil-func-call", "(not (= "+fr.val(cc.Value)+" null))", site.Pos())
	if sc := fr.siteContract(); sc != nil && sc.Callees != nil {
		if cb, ok := sc.Callees[fr.sourceName(cc.Value)]; ok {
			if fcx, ok := c.P.Specs.Funcs["callback:"+cb]; ok {
				return fr.applyContract(fcx, nil, sig, cc, site, args, names)
			}
			c.unsupported("callee directive refers to unknown callback " + cb)
		}
	}
	if o, ok := fr.origin[cc.Value]; ok && strings.HasPrefix(o, "field:") {
		if cb, ok := c.P.Specs.FuncFields[o[6:]]; ok {
			if fcx, ok := c.P.Specs.Funcs["callback:"+cb]; ok {
				return fr.applyContract(fcx, nil, sig, cc, site, args, names)
			}
			c.unsupported("funcfield refers to unknown callback " + cb)
		}
	}
	if o, ok := fr.origin[cc.Value]; ok && strings.HasPrefix(o, "global:") {
		// package-level func variable (e.g. DefaultPredicate): contract by qualified var name
		if fcx, ok := c.P.Specs.Funcs[o[7:]]; ok {
			return fr.applyContract(fcx, nil, sig, cc, site, args, names)
		}
	}
	return fr.defaultCall(nil, sig, cc, site, args, names)
}

func ifaceMethodKey(m *types.Func) string {
	recv := m.Type().(*types.Signature).Recv()
	if recv != nil {
		if n, ok := recv.Type().(*types.Named); ok {
			if n.Obj().Pkg() != nil {
				return n.Obj().Pkg().Path() + "." + n.Obj().Name() + "." + m.Name()
			}
			return n.Obj().Name() + "." + m.Name()
		}
	}
	return "?." + m.Name()
}

func (fr *Frame) callFunction(f *ssa.Function, cl *closureVal, sig *types.Signature, cc *ssa.CallCommon, site ssa.Instruction, args []Term, names []string) []Term {
	c := fr.c
	// bound method value (`v := x.M`): the call is x.M(args)
	if strings.HasPrefix(f.Synthetic, "bound method wrapper") && cl != nil && cl.parent != nil && len(cl.bindings) == 1 {
		for _, b := range f.Blocks {
			for _, in := range b.Instrs {
				if call, ok := in.(*ssa.Call); ok {
					if m := call.Call.StaticCallee(); m != nil && !call.Call.IsInvoke() {
						nargs := append([]Term{cl.parent.val(cl.bindings[0])}, args...)
						return fr.callFunction(m, nil, m.Signature, &call.Call, site, nargs, names)
					}
				}
			}
		}
	}
	if hs, ok := hardcoded(fr, f, cc, site, args); ok {
		return hs
	}
	fcx := c.P.ContractFor(f)
	if fcx != nil && !fcx.Inline {
		return fr.applyContract(fcx, f, sig, cc, site, args, names)
	}
	if c.P.inModule(f) && len(f.Blocks) > 0 && (fcx != nil && fcx.Inline || fr.inlinable(f)) {
		return fr.inline(f, cl, cc, args)
	}
	return fr.defaultCall(f, sig, cc, site, args, names)
}

// inlinable: small loop-free non-recursive module function without contract.
func (fr *Frame) inlinable(f *ssa.Function) bool {
	if fr.depth >= 4 {
		return false
	}
	for p := fr; p != nil; p = p.parent {
		if p.fn == f {
			return false
		}
	}
	if len(f.Blocks) > 40 {
		return false
	}
	tmp := &Frame{fn: f}
	for _, b := range f.Blocks {
		if b == f.Recover {
			continue
		}
		if tmp.isLoopHead(b) {
			return false
		}
		for _, in := range b.Instrs {
			switch in.(type) {
			case *ssa.Go:
				return false
			}
		}
	}
	return true
}

func (fr *Frame) inline(f *ssa.Function, cl *closureVal, cc *ssa.CallCommon, args []Term) []Term {
	c := fr.c
	child := newFrame(c, f, fr)
	child.st = fr.st
	child.entry = fr.st.clone()
	child.guard = fr.pc
	for i, p := range f.Params {
		if i < len(args) {
			child.vals[p] = args[i]
		}
	}
	// propagate known closures / origins of arguments
	off := 0
	if cc != nil && cc.IsInvoke() {
		off = 1
	}
	if cc != nil {
		for i, a := range cc.Args {
			if i+off < len(f.Params) {
				if k, ok := fr.closures[a]; ok {
					child.closures[f.Params[i+off]] = k
				}
				if o, ok := fr.origin[a]; ok {
					child.origin[f.Params[i+off]] = o
				}
				if l, ok := fr.lv[a]; ok {
					child.lv[f.Params[i+off]] = l
				}
			}
		}
	}
	if len(f.FreeVars) > 0 {
		if cl != nil && cl.parent == nil && cl.sibling {
			for i, fv := range f.FreeVars {
				if a, ok := cl.bindings[i].(*ssa.Alloc); ok {
					child.vals[fv] = fr.siblingCell(a)
					if child.fvAlloc == nil {
						child.fvAlloc = map[*ssa.FreeVar]*ssa.Alloc{}
					}
					child.fvAlloc[fv] = a
				} else {
					child.vals[fv] = fr.freshOfType("fv_"+fv.Name(), fv.Type())
				}
			}
		} else if cl == nil || cl.parent == nil {
			// cannot bind free variables: fall back
			for _, fv := range f.FreeVars {
				child.vals[fv] = fr.freshOfType("fv_"+fv.Name(), fv.Type())
			}
		} else {
			for i, fv := range f.FreeVars {
				b := cl.bindings[i]
				if a, ok := b.(*ssa.Alloc); ok {
					if child.fvAlloc == nil {
						child.fvAlloc = map[*ssa.FreeVar]*ssa.Alloc{}
					}
					child.fvAlloc[fv] = a
				}
				if pfv, ok := b.(*ssa.FreeVar); ok {
					if a := cl.parent.capturedAlloc(pfv); a != nil {
						if child.fvAlloc == nil {
							child.fvAlloc = map[*ssa.FreeVar]*ssa.Alloc{}
						}
						child.fvAlloc[fv] = a
					}
				}
				child.vals[fv] = cl.parent.val(b)
				if l, ok := cl.parent.lv[b]; ok {
					child.lv[fv] = l
				}
				if k, ok := cl.parent.closures[b]; ok {
					child.closures[fv] = k
				}
			}
		}
	}
	child.run()
	// merge returns
	sig := f.Signature
	if len(child.rets) == 0 {
		// never returns (panics): path dies
		c.assert(implies(fr.pc, "false"))
		var rs []Term
		for i := 0; i < sig.Results().Len(); i++ {
			rs = append(rs, c.zero(sig.Results().At(i).Type()))
		}
		return rs
	}
	var guards []Term
	var sts []*State
	for _, r := range child.rets {
		guards = append(guards, r.reach)
		sts = append(sts, r.st)
	}
	fr.st = c.mergeStates(guards, sts)
	// control continues only if some return was reached
	c.assert(implies(fr.pc, or(guards...)))
	var rs []Term
	for i := 0; i < sig.Results().Len(); i++ {
		if len(child.rets) == 1 {
			rs = append(rs, child.rets[0].results[i])
			continue
		}
		n := c.fresh(fr.id+"_inl_"+f.Name()+"_r", c.sortOf(sig.Results().At(i).Type()))
		for _, r := range child.rets {
			c.assert(implies(r.reach, "(= "+n+" "+r.results[i]+")"))
		}
		rs = append(rs, n)
	}
	return rs
}

// applyContract: assert requires, havoc modifies, assume ensures.
func (fr *Frame) applyContract(fcx *FuncContract, f *ssa.Function, sig *types.Signature, cc *ssa.CallCommon, site ssa.Instruction, args []Term, names []string) []Term {
	c := fr.c
	top := fr.topFrame()
	e := &Env{c: c, st: fr.st, bind: map[string]TV{}, fc: fcx, file: fcx.File}
	if fcx.PkgPath != "" {
		e.pkg = c.P.typesPkg(fcx.PkgPath)
	}
	// bind parameters
	bindParam := func(name string, tv TV) {
		if name != "" && name != "_" {
			e.bind[name] = tv
			e.bind[name+"0"] = tv
		}
	}
	if f != nil && len(f.Params) == len(args) {
		for i, p := range f.Params {
			bindParam(p.Name(), TV{T: args[i], Ty: p.Type()})
		}
		if f.Signature.Recv() != nil && len(args) > 0 {
			e.bind["self"] = TV{T: args[0], Ty: f.Params[0].Type()}
		}
		// parameters that were only renamed since the baseline stay reachable under the old name
		for o, ns := range c.P.renamesFor(f) {
			for _, n := range ns {
				if tv, has := e.bind[n]; has && n != o {
					if _, taken := e.bind[o]; !taken {
						bindParam(o, tv)
					}
				}
			}
		}
	} else {
		i := 0
		if cc.IsInvoke() {
			e.bind["self"] = TV{T: args[0], Ty: cc.Value.Type()}
			i = 1
		} else if sig.Recv() != nil && len(args) == sig.Params().Len()+1 {
			e.bind["self"] = TV{T: args[0], Ty: sig.Recv().Type()}
			i = 1
		}
		for j := 0; j < sig.Params().Len() && j+i < len(args); j++ {
			p := sig.Params().At(j)
			tv := TV{T: args[j+i], Ty: p.Type()}
			bindParam(p.Name(), tv)
			if j < len(fcx.Params) {
				bindParam(fcx.Params[j], tv)
			}
			e.bind[fmt.Sprintf("arg%d", j)] = tv
		}
	}
	if cc != nil && !cc.IsInvoke() && cc.StaticCallee() == nil {
		// call through a function value: the contract may speak about the value itself
		e.bind["fn"] = TV{T: fr.val(cc.Value), Ty: cc.Value.Type()}
	}
	cname := firstOr(names, fcx.Name)
	ordKey := "pre:" + cname
	ord := top.callOrd[ordKey]
	top.callOrd[ordKey] = ord + 1
	for _, rq := range fcx.Requires {
		t, err := e.Bool(rq.E)
		if err != nil {
			fr.bindingFailure(rq, err)
			continue
		}
		c.oblige(&Obligation{Name: fr.oblName("pre", fmt.Sprintf("%s#%d:%s", cname, ord, rq.Label)), Kind: "pre@callee",
			Label: rq.Label, Props: rq.Props, PC: fr.pc, Goal: t, Where: c.P.pos(site.Pos()) + " (" + rq.Where + ")", Src: rq.Src})
		c.assert(implies(fr.pc, t))
	}
	pre := fr.st.clone()
	// havoc
	mods := fr.modifiesOf(fcx, e)
	fr.havocSet(mods)
	// results
	var res []Term
	for i := 0; i < sig.Results().Len(); i++ {
		res = append(res, fr.freshOfType("r_"+sanitize(cname), sig.Results().At(i).Type()))
	}
	e.st = fr.st
	e.old = pre
	fr.bindResults(e, sig, res, nil)
	if f != nil {
		// named results by their source names
		for i := 0; i < sig.Results().Len(); i++ {
			if nm := sig.Results().At(i).Name(); nm != "" && nm != "_" {
				e.bind[nm] = TV{T: res[i], Ty: sig.Results().At(i).Type()}
			}
		}
	}
	for _, en := range fcx.Ensures {
		if en.AtReturn >= 0 {
			// a postcondition of one return statement may speak about the callee's locals;
			// it is an obligation of the callee, not part of its interface
			continue
		}
		t, err := e.Bool(en.E)
		if err != nil {
			if strings.Contains(err.Error(), "unknown identifier") && f != nil {
				// the clause speaks about a local of the callee: an obligation of the callee's
				// body, not part of what callers may assume
				continue
			}
			fr.bindingFailure(en, err)
			continue
		}
		c.assert(implies(fr.pc, t))
	}
	if fcx.Trusted {
		c.assumed["assumed contract: "+fcx.Kind+" "+fcx.Name+" ("+fcx.Where+")"] = true
	}
	return res
}

// modifiesOf resolves the declared (or default) modifies set of a contract.
func (fr *Frame) modifiesOf(fcx *FuncContract, penv *Env) []string {
	c := fr.c
	if !fcx.HasMod {
		if fcx.Kind == "extern" {
			return nil
		}
		return []string{"all"}
	}
	var out []string
	e := &Env{c: c, st: fr.st, bind: map[string]TV{}, file: fcx.File}
	if fcx.PkgPath != "" {
		e.pkg = c.P.typesPkg(fcx.PkgPath)
	}
	for _, m := range fcx.Modifies {
		if strings.HasPrefix(m, "except ") {
			// "all, except T.f": everything may change but the listed component
			for _, r := range fr.resolveMod(strings.TrimSpace(m[7:]), e) {
				out = append(out, "except:"+r)
			}
			continue
		}
		isNew := false
		if strings.HasPrefix(m, "new ") {
			isNew = true
			m = strings.TrimSpace(m[4:])
		}
		// T@e1+e2 : the component changes only at the listed objects
		var at []Term
		if i := strings.Index(m, "@"); i >= 0 {
			for _, ex := range strings.Split(m[i+1:], "+") {
				pe, err := ParseExpr(strings.TrimSpace(ex))
				if err != nil {
					c.unsupported("bad modifies target " + m + ": " + err.Error())
					return []string{"all"}
				}
				tv, err := penv.Value(pe)
				if err != nil {
					c.unsupported("bad modifies target " + m + ": " + err.Error())
					return []string{"all"}
				}
				at = append(at, tv.T)
			}
			m = strings.TrimSpace(m[:i])
		}
		for _, r := range fr.resolveMod(m, e) {
			if isNew {
				r = "new:" + r
			} else if len(at) > 0 {
				r = "at:" + r + "\x00" + strings.Join(at, "\x00")
			}
			out = append(out, r)
		}
	}
	return out
}

func (fr *Frame) resolveMod(m string, e *Env) (out []string) {
	c := fr.c
	defer func() {
		if r := recover(); r != nil {
			if te, ok := r.(transErr); ok {
				c.unsupported("bad modifies target " + m + ": " + string(te))
				out = []string{"all"}
				return
			}
			panic(r)
		}
	}()
	switch {
	case m == "all":
		return []string{"all"}
	case m == "alloc":
		return []string{"alloc"}
	case m == "recvd" || m == "closed":
		return []string{m}
	case strings.HasPrefix(m, "ghost."):
		g, ok := c.P.Specs.Ghosts[m[6:]]
		if !ok {
			tfail("unknown ghost %s", m[6:])
		}
		gs, _, _ := e.ghostSort(g)
		c.comp(fr.st, ghostCompName(g), gs)
		return []string{ghostCompName(g)}
	case strings.HasPrefix(m, "elems[") && strings.HasSuffix(m, "]"):
		te, err := ParseType(m[6 : len(m)-1])
		if err != nil {
			tfail("%v", err)
		}
		t, _ := e.resolveType(te)
		name := elemComp(c, t)
		c.comp(fr.st, name, "(Array Ref (Array Int "+c.sortOf(t)+"))")
		return []string{name}
	case strings.HasPrefix(m, "cell[") && strings.HasSuffix(m, "]"):
		te, err := ParseType(m[5 : len(m)-1])
		if err != nil {
			tfail("%v", err)
		}
		t, _ := e.resolveType(te)
		name := cellComp(c, t)
		c.comp(fr.st, name, "(Array Ref "+c.sortOf(t)+")")
		return []string{name}
	case strings.HasPrefix(m, "map["):
		te, err := ParseType(m)
		if err != nil {
			tfail("%v", err)
		}
		t, _ := e.resolveType(te)
		mt := t.(*types.Map)
		md, mv, ml := mapComps(c, mt)
		ks, vs := c.sortOf(mt.Key()), c.sortOf(mt.Elem())
		c.comp(fr.st, md, "(Array Ref (Array "+ks+" Bool))")
		c.comp(fr.st, mv, "(Array Ref (Array "+ks+" "+vs+"))")
		c.comp(fr.st, ml, "(Array Ref Int)")
		return []string{md, mv, ml}
	}
	// Type.field
	i := strings.LastIndex(m, ".")
	if i < 0 {
		tfail("unknown modifies target")
	}
	te, err := ParseType(m[:i])
	if err != nil {
		tfail("%v", err)
	}
	t, _ := e.resolveType(te)
	st, ok := structOf(t)
	if !ok {
		tfail("not a struct type")
	}
	if m[i+1:] == "*" {
		var all []string
		for k := 0; k < st.NumFields(); k++ {
			name := fieldComp(t, k)
			c.comp(fr.st, name, "(Array Ref "+c.sortOf(st.Field(k).Type())+")")
			all = append(all, name)
		}
		return all
	}
	for k := 0; k < st.NumFields(); k++ {
		if st.Field(k).Name() == m[i+1:] {
			name := fieldComp(t, k)
			c.comp(fr.st, name, "(Array Ref "+c.sortOf(st.Field(k).Type())+")")
			return []string{name}
		}
	}
	tfail("no such field")
	return nil
}

func (fr *Frame) havocSet(mods []string) {
	c := fr.c
	all := false
	for _, m := range mods {
		if m == "all" {
			all = true
		}
	}
	if all {
		keep := map[string]Term{}
		for _, m := range mods {
			if strings.HasPrefix(m, "except:") {
				if srt, ok := c.compSort[m[7:]]; ok {
					keep[m[7:]] = c.comp(fr.st, m[7:], srt)
				}
			}
		}
		fr.havocAll()
		for n, t := range keep {
			fr.st.comps[n] = t
		}
		return
	}
	sort.Strings(mods)
	preAlloc := c.comp(fr.st, "alloc", "(Array Ref Bool)")
	for _, m := range mods {
		if m == "alloc" {
			fr.growAlloc()
			continue
		}
		if strings.HasPrefix(m, "at:") {
			parts := strings.Split(m[3:], "\x00")
			name := parts[0]
			srt, ok := c.compSort[name]
			if !ok {
				continue
			}
			old := c.comp(fr.st, name, srt)
			fr.havocOne(name)
			if strings.HasPrefix(srt, "(Array Ref ") {
				nw := fr.st.comps[name]
				var ne []Term
				for _, t := range parts[1:] {
					ne = append(ne, "(not (= r "+t+"))")
				}
				c.assert("(forall ((r Ref)) (! (=> " + and(ne...) + " (= (select " + nw + " r) (select " + old + " r))) :pattern ((select " + nw + " r))))")
			}
			continue
		}
		if strings.HasPrefix(m, "new:") {
			name := m[4:]
			srt, ok := c.compSort[name]
			if !ok {
				continue
			}
			old := c.comp(fr.st, name, srt)
			fr.havocOne(name)
			if strings.HasPrefix(srt, "(Array Ref ") {
				nw := fr.st.comps[name]
				c.assert("(forall ((r Ref)) (! (=> (select " + preAlloc + " r) (= (select " + nw + " r) (select " + old + " r))) :pattern ((select " + nw + " r))))")
			}
			continue
		}
		fr.havocOne(m)
	}
}

func (fr *Frame) havocOne(name string) {
	c := fr.c
	if _, ok := c.compSort[name]; !ok {
		return
	}
	old := c.comp(fr.st, name, c.compSort[name])
	c.havocComp(fr.st, name)
	// non-escaping locals keep their contents
	fr.keepLocals(name, old)
}

func (fr *Frame) keepLocals(name string, old Term) {
	c := fr.c
	nw := fr.st.comps[name]
	for f := fr; f != nil; f = f.parent {
		for _, l := range f.lv {
			if !l.local {
				continue
			}
			if l.comp == name && len(l.idx) >= 1 {
				c.assert("(= (select " + nw + " " + l.idx[0] + ") (select " + old + " " + l.idx[0] + "))")
			}
			if l.structRef != "" {
				st, _ := structOf(l.ty)
				for i := 0; i < st.NumFields(); i++ {
					if fieldComp(l.ty, i) == name {
						c.assert("(= (select " + nw + " " + l.structRef + ") (select " + old + " " + l.structRef + "))")
					}
				}
			}
			if l.arrayRef != "" {
				a := l.ty.Underlying().(*types.Array)
				if elemComp(c, a.Elem()) == name {
					c.assert("(= (select " + nw + " " + l.arrayRef + ") (select " + old + " " + l.arrayRef + "))")
				}
			}
		}
	}
}

func (fr *Frame) growAlloc() {
	c := fr.c
	old := c.comp(fr.st, "alloc", "(Array Ref Bool)")
	c.havocComp(fr.st, "alloc")
	nw := fr.st.comps["alloc"]
	c.assert("(forall ((r Ref)) (! (=> (select " + old + " r) (select " + nw + " r)) :pattern ((select " + nw + " r))))")
	c.assert("(not (select " + nw + " null))")
}

func (fr *Frame) havocAll() {
	c := fr.c
	names := make([]string, 0, len(c.compSort))
	for n := range c.compSort {
		names = append(names, n)
	}
	sort.Strings(names)
	for _, n := range names {
		if strings.HasPrefix(n, "RV_") || strings.HasPrefix(n, "recvd") || n == "held" {
			continue
		}
		if c.isLocalGhostComp(n) {
			continue
		}
		if n == "alloc" {
			fr.growAlloc()
			continue
		}
		fr.havocOne(n)
	}
}

// defaultCall: callee without contract that is not inlined.
// In-module callees and unknown function values: arbitrary result, havoc of
// all heap and ghost state. Callees outside the module: arbitrary result,
// havoc of the heap components reachable from the argument types (an
// interface or func argument other than context.Context / error reaches
// everything).
func (fr *Frame) defaultCall(f *ssa.Function, sig *types.Signature, cc *ssa.CallCommon, site ssa.Instruction, args []Term, names []string) []Term {
	c := fr.c
	name := firstOr(names, "?")
	if f != nil {
		name = displayName(f)
	}
	external := f != nil && !c.P.inModule(f)
	if cc.IsInvoke() {
		// method of an interface without contract: the dynamic type may be a module type
		external = false
	}
	if !external {
		fr.havocAll()
		c.assumed["default contract (arbitrary result, havoc of all heap and ghost state) for callee without contract: "+name] = true
	} else {
		comps := map[string]bool{}
		all := false
		seen := map[string]bool{}
		for _, a := range cc.Args {
			if fr.reachComps(a.Type(), comps, seen) {
				all = true
			}
		}
		if all {
			fr.havocAll()
			c.assumed["default contract (arbitrary result, havoc of all heap and ghost state) for external callee taking interface/func arguments: "+name] = true
		} else {
			var ms []string
			for m := range comps {
				ms = append(ms, m)
			}
			ms = append(ms, "alloc")
			fr.havocSet(ms)
			c.assumed["default contract (arbitrary result, havoc of heap reachable from argument types) for external callee: "+name] = true
		}
	}
	var res []Term
	for i := 0; i < sig.Results().Len(); i++ {
		res = append(res, fr.freshOfType("r_"+sanitize(name), sig.Results().At(i).Type()))
	}
	return res
}

// reachComps collects the heap components reachable from a value of type t;
// returns true when everything may be reachable.
func (fr *Frame) reachComps(t types.Type, out map[string]bool, seen map[string]bool) bool {
	c := fr.c
	k := typeKey(t)
	if seen[k] {
		return false
	}
	seen[k] = true
	if k == "context.Context" || k == "error" {
		return false
	}
	switch u := t.Underlying().(type) {
	case *types.Basic:
		return false
	case *types.Pointer:
		el := u.Elem()
		if st, ok := structOf(el); ok {
			all := false
			for i := 0; i < st.NumFields(); i++ {
				out[fieldComp(el, i)] = true
				if fr.reachComps(st.Field(i).Type(), out, seen) {
					all = true
				}
			}
			return all
		}
		if a, ok := el.Underlying().(*types.Array); ok {
			out[elemComp(c, a.Elem())] = true
			return fr.reachComps(a.Elem(), out, seen)
		}
		out[cellComp(c, el)] = true
		return fr.reachComps(el, out, seen)
	case *types.Slice:
		out[elemComp(c, u.Elem())] = true
		return fr.reachComps(u.Elem(), out, seen)
	case *types.Array:
		return fr.reachComps(u.Elem(), out, seen)
	case *types.Map:
		md, mv, ml := mapComps(c, u)
		out[md], out[mv], out[ml] = true, true, true
		a := fr.reachComps(u.Key(), out, seen)
		b := fr.reachComps(u.Elem(), out, seen)
		return a || b
	case *types.Struct:
		all := false
		for i := 0; i < u.NumFields(); i++ {
			if fr.reachComps(u.Field(i).Type(), out, seen) {
				all = true
			}
		}
		return all
	case *types.Chan:
		return false
	case *types.Interface, *types.Signature:
		return true
	}
	return true
}

// ---------------------------------------------------------------- builtins

func (fr *Frame) builtin(b *ssa.Builtin, cc *ssa.CallCommon, site ssa.Instruction, args []Term) []Term {
	c := fr.c
	switch b.Name() {
	case "len":
		switch u := cc.Args[0].Type().Underlying().(type) {
		case *types.Slice:
			return []Term{"(slen " + args[0] + ")"}
		case *types.Basic:
			return []Term{"(strlen " + args[0] + ")"}
		case *types.Map:
			_, _, ml := mapComps(c, u)
			l := c.comp(fr.st, ml, "(Array Ref Int)")
			fr.mapLenFacts(u, args[0])
			return []Term{sel(l, args[0])}
		case *types.Array:
			return []Term{fmt.Sprint(u.Len())}
		case *types.Pointer:
			if a, ok := u.Elem().Underlying().(*types.Array); ok {
				return []Term{fmt.Sprint(a.Len())}
			}
		case *types.Chan:
			return []Term{fr.freshOfType("chanlen", types.Typ[types.Int])}
		}
	case "cap":
		if _, ok := cc.Args[0].Type().Underlying().(*types.Slice); ok {
			return []Term{"(scap " + args[0] + ")"}
		}
	case "delete":
		mt := cc.Args[0].Type().Underlying().(*types.Map)
		fr.mapDelete(mt, args[0], args[1])
		return nil
	case "close":
		fr.nopanic("close-nil-chan", "(not (= "+args[0]+" null))", site.Pos())
		cn := chanComp(c, "closed", cc.Args[0].Type())
		cl := c.comp(fr.st, cn, "(Array Ref Bool)")
		c.setComp(fr.st, cn, "(store "+cl+" "+args[0]+" true)")
		return nil
	case "append":
		return []Term{fr.appendOp(cc, site, args)}
	case "copy":
		if st, ok := cc.Args[0].Type().Underlying().(*types.Slice); ok {
			name := elemComp(c, st.Elem())
			c.comp(fr.st, name, "(Array Ref (Array Int "+c.sortOf(st.Elem())+"))")
			fr.havocOne(name)
		}
		n := fr.freshOfType("copied", types.Typ[types.Int])
		c.assert(implies(fr.pc, "(and (<= 0 "+n+") (<= "+n+" (slen "+args[0]+")))"))
		return []Term{n}
	case "min", "max":
		op := "<="
		if b.Name() == "max" {
			op = ">="
		}
		r := args[0]
		for _, a := range args[1:] {
			r = "(ite (" + op + " " + r + " " + a + ") " + r + " " + a + ")"
		}
		return []Term{r}
	case "print", "println":
		return nil
	case "recover":
		return []Term{"nilI"}
	case "ssa:wrapnilchk":
		fr.nopanic("nil-deref", "(not (= "+args[0]+" null))", site.Pos())
		return []Term{args[0]}
	}
	c.unsupported("builtin " + b.Name() + " on " + cc.Args[0].Type().String())
	var res []Term
	sig := cc.Signature()
	for i := 0; i < sig.Results().Len(); i++ {
		res = append(res, fr.freshOfType("bi", sig.Results().At(i).Type()))
	}
	return res
}

// appendOp models append(s, t...): in place when capacity suffices, else a
// fresh backing array; both alternatives are possible when cap is unknown.
func (fr *Frame) appendOp(cc *ssa.CallCommon, site ssa.Instruction, args []Term) Term {
	c := fr.c
	st, ok := cc.Args[0].Type().Underlying().(*types.Slice)
	if !ok {
		c.unsupported("append on non-slice")
		return fr.freshOfType("app", cc.Args[0].Type())
	}
	s := args[0]
	t := args[1]
	es := c.sortOf(st.Elem())
	name := elemComp(c, st.Elem())
	csort := "(Array Ref (Array Int " + es + "))"
	E := c.comp(fr.st, name, csort)
	var tlen Term
	var telem func(j Term) Term
	if _, isStr := cc.Args[1].Type().Underlying().(*types.Basic); isStr {
		// append([]byte, string...)
		c.needStrSub()
		tlen = "(strlen " + t + ")"
		telem = func(j Term) Term { return "(strat " + t + " " + j + ")" }
	} else {
		tlen = "(slen " + t + ")"
		telem = func(j Term) Term { return sel(E, "(sref "+t+")", "(+ (soff "+t+") "+j+")") }
	}
	res := c.fresh(fr.id+"_append", "Slice")
	newLen := "(+ (slen " + s + ") " + tlen + ")"
	fresh := fr.allocRef("appbuf")
	E2 := c.fresh(name, csort)
	fits := "(<= " + newLen + " (scap " + s + "))"
	// result header
	c.assert("(= (slen " + res + ") " + newLen + ")")
	c.assert("(=> " + fits + " (and (= (sref " + res + ") (sref " + s + ")) (= (soff " + res + ") (soff " + s + ")) (= (scap " + res + ") (scap " + s + "))))")
	c.assert("(=> (not " + fits + ") (and (= (sref " + res + ") " + fresh + ") (= (soff " + res + ") 0) (>= (scap " + res + ") " + newLen + ")))")
	// other rows unchanged
	c.assert("(forall ((r Ref)) (! (=> (not (= r (sref " + res + "))) (= (select " + E2 + " r) (select " + E + " r))) :pattern ((select " + E2 + " r))))")
	row2 := "(select " + E2 + " (sref " + res + "))"
	base := "(soff " + res + ")"
	if fr.oneLen[cc.Args[1]] {
		// exactly one appended element
		pos := "(+ " + base + " (slen " + s + "))"
		c.assert("(= (select " + row2 + " " + pos + ") " + telem("0") + ")")
		c.assert("(=> " + fits + " (forall ((j Int)) (! (=> (not (= j " + pos + ")) (= (select " + row2 + " j) (select (select " + E + " (sref " + s + ")) j))) :pattern ((select " + row2 + " j)))))")
	} else {
		c.assert("(forall ((j Int)) (! (=> (and (<= 0 j) (< j " + tlen + ")) (= (select " + row2 + " (+ " + base + " (slen " + s + ") j)) " + telem("j") + ")) :pattern ((select " + row2 + " (+ " + base + " (slen " + s + ") j)))))")
		c.assert("(=> " + fits + " (forall ((j Int)) (! (=> (or (< j (+ " + base + " (slen " + s + "))) (>= j (+ " + base + " " + newLen + "))) (= (select " + row2 + " j) (select (select " + E + " (sref " + s + ")) j))) :pattern ((select " + row2 + " j)))))")
	}
	// copied prefix when reallocated
	c.assert("(=> (not " + fits + ") (forall ((j Int)) (! (=> (and (<= 0 j) (< j (slen " + s + "))) (= (select " + row2 + " j) (select (select " + E + " (sref " + s + ")) (+ (soff " + s + ") j)))) :pattern ((select " + row2 + " j)))))")
	fr.st.comps[name] = E2
	return res
}

// ---------------------------------------------------------------- hard-coded library semantics

func hardcoded(fr *Frame, f *ssa.Function, cc *ssa.CallCommon, site ssa.Instruction, args []Term) ([]Term, bool) {
	c := fr.c
	key := funcKey(f)
	errT := types.Universe.Lookup("error").Type()
	switch key {
	case "errors.New":
		r := fr.freshOfType("errnew", errT)
		c.assert(implies(fr.pc, "(and (not (= "+r+" nilI)) (not (isGlobalErr "+r+")))"))
		c.assert("(forall ((t Iface)) (! (= (errIs " + r + " t) (= " + r + " t)) :pattern ((errIs " + r + " t))))")
		fr.markFreshIface(r)
		c.assumed["errors.New returns a fresh non-nil error that matches only itself"] = true
		return []Term{r}, true
	case "fmt.Errorf":
		r := fr.freshOfType("errorf", errT)
		c.assert(implies(fr.pc, "(and (not (= "+r+" nilI)) (not (isGlobalErr "+r+")))"))
		fr.markFreshIface(r)
		// %w wrapping
		if k, ok := cc.Args[0].(*ssa.Const); ok && k.Value != nil && k.Value.Kind() == constant.String {
			format := constant.StringVal(k.Value)
			wi := verbIndex(format, 'w')
			if len(wi) == 1 {
				if w := fr.variadicArg(cc.Args[1], wi[0]); w != nil {
					wt := fr.val(w)
					if c.sortOf(w.Type()) == "Iface" {
						c.assert("(forall ((t Iface)) (! (= (errIs " + r + " t) (or (= " + r + " t) (errIs " + wt + " t))) :pattern ((errIs " + r + " t))))")
						c.assumed["fmt.Errorf with a single %w wraps exactly that argument (errors.Is semantics)"] = true
						return []Term{r}, true
					}
				}
			} else if len(wi) == 0 {
				c.assert("(forall ((t Iface)) (! (= (errIs " + r + " t) (= " + r + " t)) :pattern ((errIs " + r + " t))))")
				return []Term{r}, true
			}
		}
		return []Term{r}, true
	case "fmt.Sprintf", "fmt.Sprint", "fmt.Sprintln":
		c.assumed["fmt.Sprint* formats without modifying its arguments (String/Error methods are side-effect free)"] = true
		if key == "fmt.Sprintf" {
			if t, ok := fr.sprintfConcat(cc); ok {
				c.assumed["fmt.Sprintf with only %s verbs over string-kinded arguments is the concatenation of the format's literal parts and the arguments"] = true
				return []Term{t}, true
			}
		}
		return []Term{fr.freshOfType("sprintf", types.Typ[types.String])}, true
	case "errors.Is":
		c.assumed["errors.Is is the reflexive-transitive unwrap relation errIs"] = true
		return []Term{"(errIs " + args[0] + " " + args[1] + ")"}, true
	case "encoding/json.Unmarshal", "(*encoding/json.Decoder).Decode":
		// writes only through the target pointer (second argument)
		var tgt ssa.Value
		if len(cc.Args) >= 2 {
			tgt = cc.Args[1]
		}
		if mi, ok := tgt.(*ssa.MakeInterface); ok {
			tgt = mi.X
		}
		ok := false
		if tgt != nil {
			if pt, isPtr := tgt.Type().Underlying().(*types.Pointer); isPtr {
				l := fr.locOf(tgt)
				fr.growAlloc()
				v := fr.freshOfType("decoded", pt.Elem())
				// whatever the decoder allocated exists once it returns
				fr.assumeAliveDeep(v, pt.Elem(), 2)
				fr.store(l, v)
				ok = true
			}
		}
		if !ok {
			fr.havocAll()
		}
		c.assumed["encoding/json decoding writes only through its target pointer (decoded value arbitrary)"] = true
		return []Term{fr.freshOfType("jsonerr", errT)}, true
	case "sync/atomic.StoreInt32", "sync/atomic.SwapInt32", "sync/atomic.AddInt32":
		// an unconditional atomic write to a word with a declared rely breaks the guarantee the
		// rely of the other goroutines is built on
		fa, isField := cc.Args[0].(*ssa.FieldAddr)
		if !isField {
			return nil, false
		}
		var rely *AtomicRely
		if st, ok := fa.X.Type().Underlying().(*types.Pointer); ok {
			if n, ok := st.Elem().(*types.Named); ok && n.Obj().Pkg() != nil {
				sst, _ := structOf(st.Elem())
				rely = c.P.Specs.Atomics[n.Obj().Pkg().Path()+"."+n.Obj().Name()+"."+sst.Field(fa.Field).Name()]
			}
		}
		if rely == nil {
			return nil, false
		}
		l := fr.locOf(fa)
		cur := fr.load(l)
		c.oblige(&Obligation{Name: fr.oblName("atomic", fmt.Sprintf("%s/guarantee:changes-only-from-%d", f.Name(), rely.From)), Kind: "guarantee",
			Label: "atomic-guarantee", Props: fr.topFrame().propsOfContract(), PC: fr.pc, Goal: fmt.Sprintf("(= %s %d)", cur, rely.From),
			Where: c.P.pos(site.Pos()) + " (" + rely.Where + ")", Src: fmt.Sprintf("an unconditional atomic write happens only while the word holds %d", rely.From)})
		nv := fr.freshOfType("atomicword", l.ty)
		if key == "sync/atomic.StoreInt32" {
			nv = args[1]
		}
		fr.store(l, nv)
		if key == "sync/atomic.StoreInt32" {
			return nil, true
		}
		return []Term{fr.freshOfType("atomicret", l.ty)}, true
	case "sync/atomic.LoadInt32", "sync/atomic.CompareAndSwapInt32":
		// other goroutines may have written the word since this goroutine last looked at it;
		// a declared rely (`atomic T.f changes-only-from n`) limits that interference, and every
		// atomic write to such a field owes the matching guarantee
		fa, isField := cc.Args[0].(*ssa.FieldAddr)
		if !isField {
			return nil, false
		}
		l := fr.locOf(fa)
		cur := fr.load(l)
		var rely *AtomicRely
		if st, ok := fa.X.Type().Underlying().(*types.Pointer); ok {
			if n, ok := st.Elem().(*types.Named); ok && n.Obj().Pkg() != nil {
				sst, _ := structOf(st.Elem())
				rely = c.P.Specs.Atomics[n.Obj().Pkg().Path()+"."+n.Obj().Name()+"."+sst.Field(fa.Field).Name()]
			}
		}
		now := fr.freshOfType("atomicword", l.ty)
		if rely != nil {
			c.assert(implies(fr.pc, fmt.Sprintf("(=> (not (= %s %d)) (= %s %s))", cur, rely.From, now, cur)))
		}
		if key == "sync/atomic.LoadInt32" {
			fr.store(l, now)
			return []Term{now}, true
		}
		if rely != nil {
			top := fr.topFrame()
			ord := top.callOrd["atomic-guarantee"]
			top.callOrd["atomic-guarantee"] = ord + 1
			c.oblige(&Obligation{Name: fr.oblName("atomic", fmt.Sprintf("CompareAndSwap#%d/guarantee:changes-only-from-%d", ord, rely.From)), Kind: "guarantee",
				Label: "atomic-guarantee", Props: top.propsOfContract(), PC: fr.pc, Goal: fmt.Sprintf("(= %s %d)", args[1], rely.From),
				Where: c.P.pos(site.Pos()) + " (" + rely.Where + ")", Src: fmt.Sprintf("the expected old value of the compare-and-swap is %d", rely.From)})
		}
		ok := c.fresh(fr.id+"_cas", "Bool")
		c.assert(implies(fr.pc, "(= "+ok+" (= "+now+" "+args[1]+"))"))
		fr.store(l, "(ite "+ok+" "+args[2]+" "+now+")")
		c.assumed["sync/atomic operations are sequentially consistent single steps on the addressed word"] = true
		return []Term{ok}, true
	case "(*sync.Mutex).Lock", "(*sync.RWMutex).Lock", "(*sync.RWMutex).RLock",
		"(*sync.Mutex).Unlock", "(*sync.RWMutex).Unlock", "(*sync.RWMutex).RUnlock":
		// lock state: 0 free, 1 write-held, 2 read-held (by this thread)
		held := c.comp(fr.st, "held", "(Array Ref Int)")
		op := f.Name()
		switch op {
		case "Lock":
			c.setComp(fr.st, "held", "(store "+held+" "+args[0]+" 1)")
		case "RLock":
			c.setComp(fr.st, "held", "(store "+held+" "+args[0]+" 2)")
		default:
			c.setComp(fr.st, "held", "(store "+held+" "+args[0]+" 0)")
		}
		return nil, true
	}
	return nil, false
}

func (fr *Frame) markFreshIface(r Term) {}

// assumeAliveDeep: references and slices inside a struct value are allocated (or nil).
func (fr *Frame) assumeAliveDeep(t Term, ty types.Type, depth int) {
	fr.assumeAlive(t, ty)
	if depth == 0 {
		return
	}
	if st, ok := structOf(ty); ok && fr.c.sortOf(ty) != "Ref" {
		for i := 0; i < st.NumFields(); i++ {
			fr.assumeAliveDeep(fr.c.fieldOf(ty, t, i), st.Field(i).Type(), depth-1)
		}
	}
}

func (fr *Frame) propsOfContract() []string {
	if fr.fc == nil {
		return nil
	}
	var out []string
	for p := range contractProps(fr.fc) {
		out = append(out, p)
	}
	sort.Strings(out)
	return out
}

// sprintfConcat: Sprintf(format, args...) where format is a constant whose only verbs are
// %s (and %%) and every argument is a string or a named string type without methods
// String/Error/Format: the result is a plain concatenation.
func (fr *Frame) sprintfConcat(cc *ssa.CallCommon) (Term, bool) {
	c := fr.c
	k, ok := cc.Args[0].(*ssa.Const)
	if !ok || k.Value == nil || k.Value.Kind() != constant.String {
		return "", false
	}
	format := constant.StringVal(k.Value)
	var parts []Term
	lit := ""
	argi := 0
	flush := func() {
		if lit != "" {
			parts = append(parts, c.strLit(lit))
			lit = ""
		}
	}
	for i := 0; i < len(format); i++ {
		if format[i] != '%' {
			lit += string(format[i])
			continue
		}
		if i+1 >= len(format) {
			return "", false
		}
		i++
		switch format[i] {
		case '%':
			lit += "%"
		case 's':
			flush()
			if len(cc.Args) < 2 {
				return "", false
			}
			a := fr.variadicArg(cc.Args[1], argi)
			argi++
			if a == nil {
				return "", false
			}
			if mi, ok := a.(*ssa.MakeInterface); ok {
				a = mi.X
			}
			b, isBasic := a.Type().Underlying().(*types.Basic)
			if !isBasic || b.Info()&types.IsString == 0 {
				return "", false
			}
			if n, isNamed := a.Type().(*types.Named); isNamed {
				for m := 0; m < n.NumMethods(); m++ {
					switch n.Method(m).Name() {
					case "String", "Error", "Format", "GoString":
						// a Stringer prints through its method; digest.Digest.String() is string(d)
						if !(n.Obj().Pkg() != nil && n.Obj().Pkg().Path() == "github.com/opencontainers/go-digest" && n.Obj().Name() == "Digest" && n.Method(m).Name() == "String") {
							return "", false
						}
					}
				}
			}
			parts = append(parts, fr.val(a))
		default:
			return "", false
		}
	}
	flush()
	if len(parts) == 0 {
		return "str_empty", true
	}
	t := parts[0]
	for _, p := range parts[1:] {
		t = "(strcat " + t + " " + p + ")"
	}
	return t, true
}

// verbIndex returns the argument indices consumed by the given verb.
func verbIndex(format string, verb byte) []int {
	var out []int
	arg := 0
	for i := 0; i < len(format); i++ {
		if format[i] != '%' {
			continue
		}
		i++
		if i >= len(format) {
			break
		}
		if format[i] == '%' {
			continue
		}
		for i < len(format) && strings.IndexByte("+-# 0123456789.", format[i]) >= 0 {
			i++
		}
		if i < len(format) {
			if format[i] == verb {
				out = append(out, arg)
			}
			arg++
		}
	}
	return out
}

// variadicArg finds the i-th element stored into a varargs slice built just
// before the call (new [n]T; stores; slice).
func (fr *Frame) variadicArg(sl ssa.Value, i int) ssa.Value {
	s, ok := sl.(*ssa.Slice)
	if !ok {
		return nil
	}
	a, ok := s.X.(*ssa.Alloc)
	if !ok {
		return nil
	}
	for _, ref := range *a.Referrers() {
		ia, ok := ref.(*ssa.IndexAddr)
		if !ok {
			continue
		}
		k, ok := ia.Index.(*ssa.Const)
		if !ok || k.Value == nil {
			continue
		}
		if n, _ := constant.Int64Val(k.Value); int(n) != i {
			continue
		}
		for _, r2 := range *ia.Referrers() {
			if st, ok := r2.(*ssa.Store); ok && st.Addr == ia {
				v := st.Val
				if mi, ok := v.(*ssa.MakeInterface); ok {
					return mi.X
				}
				if ci, ok := v.(*ssa.ChangeInterface); ok {
					return ci.X
				}
				return v
			}
		}
	}
	return nil
}

// ---------------------------------------------------------------- top level

func (fr *Frame) checkEnsures(ret *ssa.Return, rs []Term) {
	c := fr.c
	if fr.fc == nil {
		return
	}
	sig := fr.fn.Signature
	for _, gs := range fr.fc.ExitSets {
		fr.applyGhostSet(gs, ret, nil, rs, sig, fr.entry)
	}
	fr.checkFrame(ret)
	retOrd := fr.returnOrdinal(ret)
	for _, en := range fr.fc.Ensures {
		if en.Assumed {
			continue
		}
		if en.AtReturn >= 0 && en.AtReturn != retOrd {
			continue
		}
		e := fr.env(ret.Block())
		e.lax = en.AtReturn < 0
		fr.bindResults(e, sig, rs, nil)
		t, err := e.Bool(en.E)
		if err != nil {
			fr.bindingFailure(en, err)
			continue
		}
		ord := fr.callOrd["post:"+en.Label]
		fr.callOrd["post:"+en.Label] = ord + 1
		name := fr.oblName("post", en.Label)
		if ord > 0 {
			name += fmt.Sprintf("@ret%d", ord)
		}
		c.oblige(&Obligation{Name: name, Kind: "post", Label: en.Label, Props: en.Props, PC: fr.pc, Goal: t,
			Where: c.P.pos(ret.Pos()) + " (" + en.Where + ")", Src: en.Src})
	}
}

// VerifyFunction generates the obligations of one function under contract.
func VerifyFunction(p *Program, fn *ssa.Function, fc *FuncContract) (*Ctx, error) {
	// dry run to learn which components each loop modifies
	dry := NewCtx(p, displayName(fn))
	dry.dry = true
	if err := runTop(dry, fn, fc); err != nil {
		return nil, err
	}
	c := NewCtx(p, displayName(fn))
	c.loopMods = dry.loopMods
	c.sortDecls = append([]string{}, dry.sortDecls...)
	for k, v := range dry.sortName {
		c.sortName[k] = v
	}
	for k, v := range dry.usedSorts {
		c.usedSorts[k] = v
	}
	c.pre = map[string]string{}
	for n, s := range dry.compSort {
		if !strings.HasPrefix(n, "RV_") {
			c.pre[n] = s
		}
	}
	// make sure every component known to the dry run exists (so havoc sets resolve)
	if err := runTop(c, fn, fc); err != nil {
		return nil, err
	}
	return c, nil
}

func runTop(c *Ctx, fn *ssa.Function, fc *FuncContract) (err error) {
	defer func() {
		if r := recover(); r != nil {
			if te, ok := r.(transErr); ok {
				err = fmt.Errorf("%s: %s", displayName(fn), string(te))
				return
			}
			panic(r)
		}
	}()
	fr := newFrame(c, fn, nil)
	fr.fc = fc
	fr.top = true
	fr.st = &State{comps: map[string]Term{}}
	fr.guard = "true"
	fr.pc = "true"
	c.comp(fr.st, "alloc", "(Array Ref Bool)")
	if c.pre != nil {
		var names []string
		for n := range c.pre {
			names = append(names, n)
		}
		sort.Strings(names)
		for _, n := range names {
			c.comp(fr.st, n, c.pre[n])
		}
	}
	for i, p := range fn.Params {
		n := c.fresh("p_"+p.Name(), c.sortOf(p.Type()))
		fr.vals[p] = n
		for _, f := range c.typeFacts(n, p.Type(), 0) {
			c.assert(f)
		}
		fr.assumeAliveDeep(n, p.Type(), 1)
		if i == 0 && fn.Signature.Recv() != nil && c.sortOf(p.Type()) == "Ref" {
			c.assert("(not (= " + n + " null))")
			fr.nonNil[p] = true
			c.assumed["method receivers are non-nil"] = true
		}
	}
	for _, fv := range fn.FreeVars {
		n := c.fresh("fv_"+fv.Name(), c.sortOf(fv.Type()))
		fr.vals[fv] = n
		if fr.freeVarByRef(fv) {
			c.assert("(not (= " + n + " null))")
			fr.nonNil[fv] = true
			fr.assumeAlive(n, fv.Type())
			// the captured variable holds a well-typed value at entry
			if pt, ok := fv.Type().Underlying().(*types.Pointer); ok {
				if _, isStruct := structOf(pt.Elem()); !isStruct {
					if _, isArr := pt.Elem().Underlying().(*types.Array); !isArr {
						cur := fr.load(fr.locOf(fv))
						for _, f := range c.typeFacts(cur, pt.Elem(), 0) {
							c.assert(f)
						}
						fr.assumeAlive(cur, pt.Elem())
					}
				}
			}
		} else {
			for _, f := range c.typeFacts(n, fv.Type(), 0) {
				c.assert(f)
			}
			fr.assumeAlive(n, fv.Type())
		}
	}
	// distinct by-reference captured cells are distinct objects
	var cells []Term
	for _, fv := range fn.FreeVars {
		if fr.freeVarByRef(fv) {
			cells = append(cells, fr.vals[fv])
		}
	}
	if len(cells) > 1 {
		c.assert("(distinct " + strings.Join(cells, " ") + ")")
	}
	fr.entry = fr.st.clone()
	// facts (axioms) from spec files
	for _, f := range c.P.Specs.Facts {
		e := &Env{c: c, st: fr.st, bind: map[string]TV{}, file: f.File}
		if f.File.PkgPath != "" {
			e.pkg = c.P.typesPkg(f.File.PkgPath)
		}
		if fc != nil && !factRelevant(f, fc) {
			continue
		}
		t, err := e.Bool(f.Clause.E)
		if err != nil {
			return fmt.Errorf("%s: %v", f.Clause.Where, err)
		}
		c.assert(t)
		if f.Kind == "axiom" {
			c.assumed["axiom ["+f.Clause.Label+"]: "+f.Clause.Src] = true
		}
	}
	if fc != nil {
		for _, rq := range fc.Requires {
			e := fr.env(fn.Blocks[0])
			t, err := e.Bool(rq.E)
			if err != nil {
				fr.bindingFailure(rq, err)
				continue
			}
			c.assert(t)
		}
	}
	if fc != nil {
		// ghost initialisation (`entry set`): function-local ghost counters start from known values
		for _, gs := range fc.EntrySets {
			fr.applyEntrySet(gs)
		}
	}
	fr.entry = fr.st.clone()
	if fc != nil && fc.HasMod {
		fr.declMods = map[string][]Term{}
		eenv := fr.env(fn.Blocks[0])
		eenv.st = fr.entry
		for _, m := range fr.modifiesOf(fc, eenv) {
			switch {
			case strings.HasPrefix(m, "at:"):
				parts := strings.Split(m[3:], "\x00")
				if prev, ok := fr.declMods[parts[0]]; !ok || len(prev) > 0 {
					fr.declMods[parts[0]] = append(prev, parts[1:]...)
				}
			case strings.HasPrefix(m, "new:"):
				fr.declMods[m] = []Term{}
			default:
				fr.declMods[m] = []Term{}
			}
		}
	}
	fr.run()
	// loops declared in the contract must exist
	if fc != nil {
		for k := range fc.Loops {
			found := false
			for _, o := range fr.loopOrd {
				if o == k {
					found = true
				}
			}
			if !found {
				fr.bindingFailure(&Clause{Label: fmt.Sprintf("loop%d", k), Where: fc.Where, Src: "loop ordinal does not exist"}, fmt.Errorf("function has %d loops", len(fr.loopOrd)))
			}
		}
		// a postcondition tied to the n-th return statement must have that statement
		nret := 0
		for _, b := range fn.Blocks {
			if b == fn.Recover {
				continue
			}
			for _, in := range b.Instrs {
				if _, ok := in.(*ssa.Return); ok {
					nret++
				}
			}
		}
		for _, en := range fc.Ensures {
			if en.AtReturn >= nret {
				fr.bindingFailure(en, fmt.Errorf("ensures@%d: the function has only %d return statements", en.AtReturn, nret))
			}
		}
		for _, cs := range fc.Calls {
			used := fr.patHit[cs.Pattern]
			for k := range fr.callOrd {
				if strings.HasPrefix(k, "call:") && matchPattern(cs.Pattern, []string{k[5:]}) {
					used = true
				}
				if strings.HasPrefix(k, "call:") {
					for n := 0; n < fr.callOrd[k]; n++ {
						if matchPattern(cs.Pattern, []string{fmt.Sprintf("%s#%d", k[5:], n)}) {
							used = true
						}
					}
				}
			}
			if !used && !c.dry {
				// pattern may match through an alternative name; checked in matchedPatterns
				bare := barePattern(cs.Pattern)
				if !fr.patternSeen(bare) {
					fr.bindingFailure(&Clause{Label: "call-" + cs.Pattern, Where: fc.Where, Src: "call pattern matches no call"}, fmt.Errorf("no call matches %q", cs.Pattern))
				}
			}
		}
	}
	return nil
}

// factRelevant: axioms are global unless labelled with a package-specific tag.
func factRelevant(f *FactDecl, fc *FuncContract) bool {
	if f.File.PkgPath == "" {
		return true
	}
	return f.File.PkgPath == fc.PkgPath
}

func (fr *Frame) patternSeen(pat string) bool {
	for _, b := range fr.fn.Blocks {
		for _, in := range b.Instrs {
			var cc *ssa.CallCommon
			switch x := in.(type) {
			case *ssa.Call:
				cc = &x.Call
			case *ssa.Defer:
				cc = &x.Call
			case *ssa.Go:
				cc = &x.Call
			}
			if cc != nil && matchPattern(pat, fr.calleeNames(cc)) {
				return true
			}
		}
	}
	for _, af := range fr.fn.AnonFuncs {
		sub := &Frame{fn: af, c: fr.c, origin: map[ssa.Value]string{}}
		if sub.patternSeen(pat) {
			return true
		}
	}
	return false
}

// checkFrame: a function with a declared `modifies` must leave every other
// component unchanged on objects that existed at entry.
func (fr *Frame) checkFrame(ret *ssa.Return) {
	c := fr.c
	fc := fr.fc
	if fc == nil || !fc.HasMod {
		return
	}
	if fc.Opts["trust-frame"] {
		// the declared frame is assumed (reader state reached through interface calls is not
		// followed); the function's other obligations are still generated
		c.assumed["assumed frame (opt trust-frame) of "+fc.Name+": modifies "+strings.Join(fc.Modifies, ", ")+" ("+fc.Where+")"] = true
		return
	}
	declared := map[string]bool{}
	declaredAt := map[string][]Term{}
	eenv := fr.env(fr.fn.Blocks[0])
	eenv.st = fr.entry
	mods := fr.modifiesOf(fc, eenv)
	for _, m := range mods {
		if strings.HasPrefix(m, "except:") {
			c.unsupported("modifies ... except is only available on trusted contracts (frame of " + fc.Name + " not checkable)")
		}
	}
	for _, m := range mods {
		if m == "all" {
			return
		}
		if strings.HasPrefix(m, "at:") {
			parts := strings.Split(m[3:], "\x00")
			declaredAt[parts[0]] = append(declaredAt[parts[0]], parts[1:]...)
			continue
		}
		declared[m] = true
	}
	if c.dry {
		return
	}
	names := make([]string, 0, len(fr.st.comps))
	for n := range fr.st.comps {
		names = append(names, n)
	}
	sort.Strings(names)
	entryAlloc := fr.entry.comps["alloc"]
	if entryAlloc == "" {
		entryAlloc = c.compInit["alloc"]
	}
	for _, n := range names {
		if n == "alloc" || n == "held" || strings.HasPrefix(n, "RV_") || strings.HasPrefix(n, "recvd") || strings.HasPrefix(n, "closed") || c.isLocalGhostComp(n) {
			continue
		}
		if declared[n] {
			continue
		}
		cur := fr.st.comps[n]
		ent, ok := fr.entry.comps[n]
		if !ok {
			ent = c.compInit[n]
		}
		if cur == ent {
			continue
		}
		srt := c.compSort[n]
		var goal Term
		if strings.HasPrefix(srt, "(Array Ref ") {
			hyp := []Term{"(select " + entryAlloc + " r)"}
			for _, t := range declaredAt[n] {
				hyp = append(hyp, "(not (= r "+t+"))")
			}
			goal = "(forall ((r Ref)) (=> " + and(hyp...) + " (= (select " + cur + " r) (select " + ent + " r))))"
		} else {
			if declared["new:"+n] {
				continue
			}
			goal = "(= " + cur + " " + ent + ")"
		}
		ord := fr.callOrd["frame:"+n]
		fr.callOrd["frame:"+n] = ord + 1
		name := fr.oblName("frame", n)
		if ord > 0 {
			name += fmt.Sprintf("@ret%d", ord)
		}
		c.oblige(&Obligation{Name: name, Kind: "frame", Label: n, PC: fr.pc, Goal: goal, Where: c.P.pos(ret.Pos()) + " (" + fc.Where + ")",
			Src: "component " + n + " changes outside the declared modifies set"})
	}
}

func (fr *Frame) applyEntrySet(gs *GhostSet) {
	c := fr.c
	g, ok := c.P.Specs.Ghosts[gs.Name]
	if !ok {
		c.unsupported("entry set of unknown ghost " + gs.Name)
		return
	}
	e := fr.env(fr.fn.Blocks[0])
	cl := &Clause{Label: "entry-set-" + gs.Name, Src: gs.Src, Where: fr.fc.Where}
	val, err := e.Value(gs.Val)
	if err != nil {
		fr.bindingFailure(cl, err)
		return
	}
	var idx []Term
	for _, a := range gs.Args {
		tv, err := e.Value(a)
		if err != nil {
			fr.bindingFailure(cl, err)
			return
		}
		idx = append(idx, tv.T)
	}
	s, _, gres := e.ghostSort(g)
	if val.IsNil && gres.Ty != nil {
		val = e.coerceNil(val, gres.Ty)
	}
	name := ghostCompName(g)
	cur := c.comp(fr.st, name, s)
	c.setComp(fr.st, name, storeN(cur, idx, val.T))
}

// isLocalGhostComp: function-private ghost state (`ghost local`) is not part of any frame.
func (c *Ctx) isLocalGhostComp(n string) bool {
	if !strings.HasPrefix(n, "G_") {
		return false
	}
	for _, g := range c.P.Specs.Ghosts {
		if g.Local && ghostCompName(g) == n {
			return true
		}
	}
	return false
}

// returnOrdinal: index of a return instruction among the function's returns in source order.
func (fr *Frame) returnOrdinal(ret *ssa.Return) int {
	var rets []*ssa.Return
	for _, b := range fr.fn.Blocks {
		if b == fr.fn.Recover {
			continue
		}
		for _, in := range b.Instrs {
			if r, ok := in.(*ssa.Return); ok {
				rets = append(rets, r)
			}
		}
	}
	sort.SliceStable(rets, func(i, j int) bool { return rets[i].Pos() < rets[j].Pos() })
	for i, r := range rets {
		if r == ret {
			return i
		}
	}
	return -1
}

// barePattern strips the `#k` ordinals of a call pattern.
func barePattern(p string) string {
	if !strings.Contains(p, "#") {
		return p
	}
	var alts []string
	for _, a := range strings.Split(p, "|") {
		if i := strings.Index(a, "#"); i >= 0 {
			a = a[:i]
		}
		alts = append(alts, a)
	}
	return strings.Join(alts, "|")
}
