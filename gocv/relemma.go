package main

// Regular-expression lemmas: facts about the language of a package-level
// *regexp.Regexp of the real code (`var x = regexp.MustCompile(<constant>)`),
// decided by the solver's own string/regex theory on the pattern read from the
// program, and then available to the function proofs as a fact about reMatch.
//
//   //@ relemma [C20:label] <var> excludes "<chars>"   no string of the language contains any of the chars
//   //@ relemma [C20:label] <var> nonempty             the empty string is not in the language
//   //@ relemma [C20:label] <var> maxlen <n>           every string of the language has at most n bytes
//
// The pattern has to be anchored (^…$) and ASCII only; everything else is
// reported as an unsupported construct (a failed obligation, never a pass).

import (
	"fmt"
	"regexp/syntax"
	"strconv"
	"strings"
)

type ReLemma struct {
	Var   string // package-level variable (resolved in the spec file's package)
	Kind  string // excludes | nonempty | maxlen
	Chars string
	N     int
}

func parseReLemma(rest string) (*ReLemma, string, error) {
	f := strings.Fields(rest)
	if len(f) < 2 {
		return nil, "", fmt.Errorf("relemma: want <var> excludes \"chars\" | nonempty | maxlen n")
	}
	rl := &ReLemma{Var: f[0], Kind: f[1]}
	switch f[1] {
	case "excludes":
		i := strings.Index(rest, "\"")
		if i < 0 {
			return nil, "", fmt.Errorf("relemma excludes: quoted characters expected")
		}
		s, err := strconv.Unquote(strings.TrimSpace(rest[i:]))
		if err != nil || s == "" {
			return nil, "", fmt.Errorf("relemma excludes: bad quoted characters")
		}
		rl.Chars = s
		var cs []string
		for _, b := range []byte(s) {
			cs = append(cs, fmt.Sprintf("strat(s, i) != %d", b))
		}
		return rl, fmt.Sprintf("forall s string :: reMatch(%s, s) ==> (forall i int :: 0 <= i && i < strlen(s) ==> %s)", rl.Var, strings.Join(cs, " && ")), nil
	case "nonempty":
		return rl, fmt.Sprintf("forall s string :: reMatch(%s, s) ==> strlen(s) > 0", rl.Var), nil
	case "maxlen":
		if len(f) < 3 {
			return nil, "", fmt.Errorf("relemma maxlen: number expected")
		}
		n, err := strconv.Atoi(f[2])
		if err != nil {
			return nil, "", err
		}
		rl.N = n
		return rl, fmt.Sprintf("forall s string :: reMatch(%s, s) ==> strlen(s) <= %d", rl.Var, n), nil
	}
	return nil, "", fmt.Errorf("relemma: unknown kind %q", f[1])
}

// reToSMT translates an anchored ASCII pattern to an SMT-LIB RegLan term.
func reToSMT(pattern string) (string, error) {
	re, err := syntax.Parse(pattern, syntax.Perl)
	if err != nil {
		return "", err
	}
	// strip anchors at the ends of the top-level concatenation
	subs := []*syntax.Regexp{re}
	if re.Op == syntax.OpConcat {
		subs = re.Sub
	}
	if len(subs) < 2 || subs[0].Op != syntax.OpBeginText || subs[len(subs)-1].Op != syntax.OpEndText {
		return "", fmt.Errorf("pattern is not anchored with ^ and $")
	}
	var parts []string
	for _, s := range subs[1 : len(subs)-1] {
		t, err := reNode(s)
		if err != nil {
			return "", err
		}
		parts = append(parts, t)
	}
	return reConcat(parts), nil
}

func reConcat(parts []string) string {
	switch len(parts) {
	case 0:
		return "(str.to_re \"\")"
	case 1:
		return parts[0]
	}
	return "(re.++ " + strings.Join(parts, " ") + ")"
}

func smtStr(r rune) (string, error) {
	if r < 0x20 || r > 0x7e {
		return "", fmt.Errorf("non-printable or non-ASCII character %U in pattern", r)
	}
	if r == '"' {
		return "\"\"\"\"", nil
	}
	return "\"" + string(r) + "\"", nil
}

func reNode(re *syntax.Regexp) (string, error) {
	if re.Flags&syntax.FoldCase != 0 {
		return "", fmt.Errorf("case-insensitive matching is not supported")
	}
	switch re.Op {
	case syntax.OpEmptyMatch:
		return "(str.to_re \"\")", nil
	case syntax.OpLiteral:
		var parts []string
		for _, r := range re.Rune {
			s, err := smtStr(r)
			if err != nil {
				return "", err
			}
			parts = append(parts, "(str.to_re "+s+")")
		}
		return reConcat(parts), nil
	case syntax.OpCharClass:
		var alts []string
		for i := 0; i+1 < len(re.Rune); i += 2 {
			lo, hi := re.Rune[i], re.Rune[i+1]
			if hi > 0x7e {
				// classes such as [^x] reach to the end of Unicode; byte strings are not modelled beyond ASCII
				return "", fmt.Errorf("character class reaches beyond ASCII (%U-%U)", lo, hi)
			}
			a, err := smtStr(lo)
			if err != nil {
				return "", err
			}
			b, err := smtStr(hi)
			if err != nil {
				return "", err
			}
			if lo == hi {
				alts = append(alts, "(str.to_re "+a+")")
			} else {
				alts = append(alts, "(re.range "+a+" "+b+")")
			}
		}
		if len(alts) == 0 {
			return "re.none", nil
		}
		if len(alts) == 1 {
			return alts[0], nil
		}
		return "(re.union " + strings.Join(alts, " ") + ")", nil
	case syntax.OpCapture:
		return reNode(re.Sub[0])
	case syntax.OpStar, syntax.OpPlus, syntax.OpQuest:
		t, err := reNode(re.Sub[0])
		if err != nil {
			return "", err
		}
		op := map[syntax.Op]string{syntax.OpStar: "re.*", syntax.OpPlus: "re.+", syntax.OpQuest: "re.opt"}[re.Op]
		return "(" + op + " " + t + ")", nil
	case syntax.OpRepeat:
		t, err := reNode(re.Sub[0])
		if err != nil {
			return "", err
		}
		if re.Max < 0 {
			return fmt.Sprintf("(re.++ ((_ re.^ %d) %s) (re.* %s))", re.Min, t, t), nil
		}
		return fmt.Sprintf("((_ re.loop %d %d) %s)", re.Min, re.Max, t), nil
	case syntax.OpConcat:
		var parts []string
		for _, s := range re.Sub {
			t, err := reNode(s)
			if err != nil {
				return "", err
			}
			parts = append(parts, t)
		}
		return reConcat(parts), nil
	case syntax.OpAlternate:
		var parts []string
		for _, s := range re.Sub {
			t, err := reNode(s)
			if err != nil {
				return "", err
			}
			parts = append(parts, t)
		}
		return "(re.union " + strings.Join(parts, " ") + ")", nil
	}
	return "", fmt.Errorf("unsupported regular-expression construct %v", re.Op)
}

// reLemmaQuery: unsat iff the lemma holds for the language of the pattern.
func reLemmaQuery(pattern string, rl *ReLemma) (string, error) {
	lang, err := reToSMT(pattern)
	if err != nil {
		return "", err
	}
	var b strings.Builder
	b.WriteString("(set-logic ALL)\n")
	fmt.Fprintf(&b, "; pattern %q\n", pattern)
	b.WriteString("(declare-const s String)\n")
	fmt.Fprintf(&b, "(assert (str.in_re s %s))\n", lang)
	switch rl.Kind {
	case "excludes":
		var alts []string
		for _, r := range rl.Chars {
			s, err := smtStr(r)
			if err != nil {
				return "", err
			}
			alts = append(alts, "(str.to_re "+s+")")
		}
		u := alts[0]
		if len(alts) > 1 {
			u = "(re.union " + strings.Join(alts, " ") + ")"
		}
		fmt.Fprintf(&b, "(assert (str.in_re s (re.++ re.all %s re.all)))\n", u)
	case "nonempty":
		b.WriteString("(assert (= s \"\"))\n")
	case "maxlen":
		fmt.Fprintf(&b, "(assert (> (str.len s) %d))\n", rl.N)
	}
	b.WriteString("(check-sat)\n")
	return b.String(), nil
}
