package main

import (
	"bytes"
	"context"
	"fmt"
	"os"
	"os/exec"
	"path/filepath"
	"strings"
	"sync"
	"time"
)

type solverSpec struct {
	name string
	cmd  func(file string, timeoutS int) []string
	cvc  bool
}

var solvers = []solverSpec{
	{"z3-new-5.1.0", func(f string, t int) []string { return []string{"z3-new", fmt.Sprintf("-T:%d", t), "smt.random_seed=7", f} }, false},
	{"z3-4.8.12", func(f string, t int) []string { return []string{"/usr/bin/z3", fmt.Sprintf("-T:%d", t), "smt.random_seed=7", f} }, false},
	{"cvc5-1.0", func(f string, t int) []string {
		return []string{"cvc5", "-q", "--lang=smt2", fmt.Sprintf("--tlimit=%d", t*1000), "--seed=7", f}
	}, true},
	{"z3-new-5.1.0/seed0", func(f string, t int) []string { return []string{"z3-new", fmt.Sprintf("-T:%d", t), f} }, false},
}

// extra configurations raced in the second pass (quantifier instantiation is sensitive to
// the seed; an `unsat` from any configuration is a proof)
var secondPass bool
var seedVariants = []solverSpec{
	{"z3-new-5.1.0/seed42", func(f string, t int) []string { return []string{"z3-new", fmt.Sprintf("-T:%d", t), "smt.random_seed=42", f} }, false},
	{"z3-4.8.12/seed0", func(f string, t int) []string { return []string{"/usr/bin/z3", fmt.Sprintf("-T:%d", t), f} }, false},
}

// buildQuery renders the SMT-LIB text deciding one obligation.
func buildQuery(c *Ctx, o *Obligation, forCVC bool) string {
	if o.RawQuery != "" {
		return o.RawQuery
	}
	var b strings.Builder
	if forCVC {
		b.WriteString("(set-option :produce-models true)\n")
	}
	b.WriteString("(set-logic ALL)\n")
	fmt.Fprintf(&b, "; obligation %s\n; %s\n", o.Name, o.Where)
	for _, l := range c.sortDecls {
		b.WriteString(l)
		b.WriteByte('\n')
	}
	for i := 0; i < o.CtxLen; i++ {
		b.WriteString(c.lines[i])
		b.WriteByte('\n')
	}
	fmt.Fprintf(&b, "(assert %s)\n", o.PC)
	fmt.Fprintf(&b, "(assert (not %s))\n", o.Goal)
	b.WriteString("(check-sat)\n")
	return b.String()
}

type solveResult struct {
	status string
	solver string
	ms     int64
	out    string
}

func runSolver(ctx context.Context, sp solverSpec, file string, timeoutS int) solveResult {
	// The time limit of an obligation is CPU time (ulimit -t), so that a proof found in N seconds on
	// an idle machine is still found when the cores are shared with other checks; the solver's own
	// wall-clock limit is twice that.
	args := sp.cmd(file, timeoutS*2)
	start := time.Now()
	sh := append([]string{"-c", fmt.Sprintf("ulimit -t %d; exec \"$@\"", timeoutS+1), "sh"}, args...)
	cmd := exec.CommandContext(ctx, "/bin/sh", sh...)
	var out bytes.Buffer
	cmd.Stdout = &out
	cmd.Stderr = &out
	cmd.Run()
	if cmd.ProcessState != nil && !cmd.ProcessState.Exited() && ctx.Err() == nil && !strings.HasPrefix(strings.TrimSpace(out.String()), "unsat") && !strings.HasPrefix(strings.TrimSpace(out.String()), "sat") {
		out.Reset()
		out.WriteString("timeout\n(cpu time limit reached)")
	}
	ms := time.Since(start).Milliseconds()
	first := strings.TrimSpace(out.String())
	if i := strings.IndexByte(first, '\n'); i >= 0 {
		first = strings.TrimSpace(first[:i])
	}
	st := "unknown"
	switch first {
	case "unsat":
		st = "unsat"
	case "sat":
		st = "sat"
	case "timeout":
		st = "timeout"
	case "unknown":
		st = "unknown"
	default:
		if ctx.Err() != nil {
			st = "cancelled"
		} else if strings.Contains(out.String(), "error") || strings.Contains(out.String(), "Error") {
			st = "error"
		}
	}
	return solveResult{status: st, solver: sp.name, ms: ms, out: truncate(out.String(), 2000)}
}

// solve races the solvers on one obligation; the first `unsat` wins.
func solve(c *Ctx, o *Obligation, dir string, timeoutS int, all bool) {
	solveOne(c, o, dir, timeoutS, all)
	if o.Status == "unsat" || o.Status == "error" {
		return
	}
	// a goal that is a conjunction is also discharged when every conjunct is
	cs := conjuncts(o.Goal)
	if len(cs) <= 1 {
		return
	}
	var ms int64
	for i, g := range cs {
		sub := &Obligation{Name: fmt.Sprintf("%s.conj%d", o.Name, i), CtxLen: o.CtxLen, PC: o.PC, Goal: g}
		solveOne(c, sub, dir, timeoutS, all)
		ms += sub.Ms
		if sub.Status != "unsat" {
			o.Output += fmt.Sprintf("\nconjunct %d of %d not discharged [%s]: %s", i, len(cs), sub.Status, truncate(g, 400))
			return
		}
	}
	o.Status = "unsat"
	o.Solver = fmt.Sprintf("split into %d conjuncts", len(cs))
	o.Ms += ms
	os.Remove(o.Query)
	os.Remove(strings.TrimSuffix(o.Query, ".smt2") + ".cvc5.smt2")
}

func solveOne(c *Ctx, o *Obligation, dir string, timeoutS int, all bool) {
	base := filepath.Join(dir, sanitize(o.Name))
	if len(base) > 200 {
		base = base[:200]
	}
	q := buildQuery(c, o, false)
	o.Query = base + ".smt2"
	os.WriteFile(o.Query, []byte(q), 0o644)
	qc := base + ".cvc5.smt2"
	os.WriteFile(qc, []byte(buildQuery(c, o, true)), 0o644)
	if len(q) > 3_000_000 {
		o.Status = "error"
		o.Output = "VC too large"
		return
	}
	ctx, cancel := context.WithCancel(context.Background())
	defer cancel()
	race := solvers
	if secondPass {
		race = append(append([]solverSpec{}, solvers...), seedVariants...)
	}
	results := make(chan solveResult, len(race))
	var wg sync.WaitGroup
	for _, sp := range race {
		sp := sp
		wg.Add(1)
		go func() {
			defer wg.Done()
			f := o.Query
			if sp.cvc {
				f = qc
			}
			results <- runSolver(ctx, sp, f, timeoutS)
		}()
	}
	go func() { wg.Wait(); close(results) }()
	var best solveResult
	var outs []string
	agree := 0
	for r := range results {
		outs = append(outs, fmt.Sprintf("[%s %dms] %s", r.solver, r.ms, r.status))
		if r.status == "unsat" {
			agree++
			if best.status != "unsat" {
				best = r
			}
			if !all {
				cancel()
				break
			}
			continue
		}
		if r.status == "sat" && best.status != "unsat" {
			best = r
		} else if best.status == "" {
			best = r
		}
	}
	o.Status = best.status
	o.Solver = best.solver
	o.Ms = best.ms
	o.Output = strings.Join(outs, "; ") + "\n" + best.out
	if o.Status == "unsat" && os.Getenv("GOCV_KEEP_QUERIES") == "" {
		os.Remove(qc)
		os.Remove(o.Query)
	}
}

func solveAll(c *Ctx, obls []*Obligation, dir string, timeoutS int, all bool, par int) {
	sem := make(chan struct{}, par)
	var wg sync.WaitGroup
	for _, o := range obls {
		o := o
		wg.Add(1)
		sem <- struct{}{}
		go func() {
			defer wg.Done()
			defer func() { <-sem }()
			solve(c, o, dir, timeoutS, all)
		}()
	}
	wg.Wait()
}

func runSolverSimple(sp solverSpec, file string, timeoutS int) solveResult {
	ctx, cancel := context.WithTimeout(context.Background(), time.Duration(2*timeoutS+3)*time.Second)
	defer cancel()
	return runSolver(ctx, sp, file, timeoutS)
}
