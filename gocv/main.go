package main

import (
	"go/types"
	"go/constant"
	"sync"
	"bufio"
	"encoding/json"
	"flag"
	"fmt"
	"os"
	"path/filepath"
	"sort"
	"strconv"
	"strings"
	"time"

	"golang.org/x/tools/go/ssa"
)

func main() {
	if len(os.Args) < 2 {
		fmt.Fprintln(os.Stderr, "usage: gocv check|dump|list ...")
		os.Exit(2)
	}
	switch os.Args[1] {
	case "check":
		os.Exit(cmdCheck(os.Args[2:]))
	case "dump":
		os.Exit(cmdDump(os.Args[2:]))
	default:
		fmt.Fprintln(os.Stderr, "unknown command")
		os.Exit(2)
	}
}

type knownFinding struct {
	Property   string
	Obligation string
	What       string
}

func loadKnown(path string) (known []knownFinding, fixed []string) {
	fh, err := os.Open(path)
	if err != nil {
		return nil, nil
	}
	defer fh.Close()
	sc := bufio.NewScanner(fh)
	for sc.Scan() {
		line := strings.TrimSpace(sc.Text())
		if strings.HasPrefix(line, "known:") {
			rest := strings.TrimSpace(line[6:])
			what := ""
			if i := strings.Index(rest, "::"); i >= 0 {
				what = strings.TrimSpace(rest[i+2:])
				rest = rest[:i]
			}
			kf := knownFinding{What: what}
			for _, f := range strings.Fields(rest) {
				if strings.HasPrefix(f, "property=") {
					kf.Property = f[9:]
				}
				if strings.HasPrefix(f, "obligation=") {
					kf.Obligation = f[11:]
				}
			}
			known = append(known, kf)
		} else if strings.HasPrefix(line, "fixed:") {
			fixed = append(fixed, line)
		}
	}
	return
}

type fnReport struct {
	Name        string   `json:"function"`
	Contract    string   `json:"contract_at"`
	Obligations int      `json:"obligations"`
	Discharged  int      `json:"discharged"`
	Unsupported []string `json:"unsupported,omitempty"`
}

func cmdCheck(args []string) int {
	fs := flag.NewFlagSet("check", flag.ExitOnError)
	prop := fs.String("property", "", "property id")
	tier := fs.String("tier", "quick", "quick|thorough")
	repo := fs.String("repo", "/repo", "repository")
	verif := fs.String("verif", "/verif", "verif dir")
	only := fs.String("func", "", "only functions whose display name contains this")
	outDir := fs.String("out", "", "directory for evidence/ and replay/ (default: the verif dir)")
	keep := fs.Bool("keep", false, "keep discharged queries")
	verbose := fs.Bool("v", false, "verbose")
	doExplain := fs.Bool("explain", false, "re-solve the conjuncts of failed goals separately")
	fs.Parse(args)
	if t := os.Getenv("VERIF_TIER"); t != "" && *tier == "" {
		*tier = t
	}
	seed := 0
	if s := os.Getenv("VERIF_SEED"); s != "" {
		seed, _ = strconv.Atoi(s)
	}
	start := time.Now()
	specDir := filepath.Join(*verif, "specs")
	knownPath := filepath.Join(*verif, "known_findings.txt")
	if *outDir != "" {
		*verif = *outDir
	}
	p, err := LoadProgram(*repo, specDir)
	if err != nil {
		fmt.Fprintf(os.Stderr, "gocv: cannot load /repo with tag verif: %v\n", err)
		// a tree that does not load is reported as a failed binding obligation
		return reportLoadFailure(*prop, *tier, seed, *verif, err, start)
	}
	loadS := time.Since(start).Seconds()
	timeout := 25
	if *tier == "thorough" {
		timeout = 120
	}
	fcs := p.FuncsWithProp(*prop)
	qdir := filepath.Join(*verif, "replay", *prop, "queries")
	os.RemoveAll(filepath.Join(*verif, "replay", *prop))
	os.MkdirAll(qdir, 0o755)
	_ = keep

	var allObls []*Obligation
	oblCtx := map[*Obligation]*Ctx{}
	var reports []*fnReport
	assumed := map[string]bool{}
	var engineErrors []string
	for _, fc := range fcs {
		key := p.Specs.funcKey("func", fc.Name, fc.File)
		fn := p.Funcs[key]
		if *only != "" && !strings.Contains(key, *only) {
			continue
		}
		rep := &fnReport{Name: strings.ReplaceAll(key, modulePath, "oras"), Contract: fc.Where}
		reports = append(reports, rep)
		if fn == nil {
			o := &Obligation{Name: shortenPaths(strings.ReplaceAll(key, modulePath+"/", "")) + "/binding:function", Kind: "binding", Status: "error",
				Output: "function under contract does not exist in the current tree: " + key, Goal: "false", PC: "true", Where: fc.Where}
			allObls = append(allObls, o)
			rep.Obligations++
			continue
		}
		if fc.Trusted {
			continue
		}
		c, err := VerifyFunction(p, fn, fc)
		if err != nil {
			engineErrors = append(engineErrors, err.Error())
			o := &Obligation{Name: displayName(fn) + "/binding:contract", Kind: "binding", Status: "error", Output: err.Error(), Goal: "false", PC: "true", Where: fc.Where}
			allObls = append(allObls, o)
			rep.Obligations++
			continue
		}
		for a := range c.assumed {
			assumed[a] = true
		}
		rep.Unsupported = c.unsupp
		for _, u := range c.unsupp {
			o := &Obligation{Name: displayName(fn) + "/binding:unsupported", Kind: "binding", Status: "error", Output: "unsupported construct: " + u, Goal: "false", PC: "true", Where: fc.Where}
			allObls = append(allObls, o)
			rep.Obligations++
		}
		// vacuity: the assumptions at function entry must be satisfiable
		for _, o := range c.obls {
			if len(o.Props) > 0 && !hasProp(o.Props, *prop) {
				continue
			}
			allObls = append(allObls, o)
			oblCtx[o] = c
			rep.Obligations++
		}
		vo := &Obligation{Name: displayName(fn) + "/vacuity:requires-satisfiable", Kind: "vacuity", PC: "true", Goal: "false", Where: fc.Where}
		vo.CtxLen = entryLen(c)
		oblCtx[vo] = c
		allObls = append(allObls, vo)
		rep.Obligations++
	}
	// guarantee side of the declared relies on atomic words: every access to such a field
	// anywhere in the module is a Load, or a CompareAndSwap whose expected old value is the
	// constant the rely names; anything else breaks what the other goroutines rely on
	for key, ar := range p.Specs.Atomics {
		has := false
		for _, q := range ar.Props {
			if q == *prop {
				has = true
			}
		}
		if !has {
			continue
		}
		for _, o := range atomicGuaranteeScan(p, key, ar) {
			o.Props = ar.Props
			allObls = append(allObls, o)
		}
	}
	// lemmas tagged with this property: proved from the axioms and earlier lemmas alone
	{
		var lc *Ctx
		for _, f := range p.Specs.Facts {
			if f.Kind != "lemma" || !f.Clause.HasProp(*prop) {
				continue
			}
			if lc == nil {
				lc = NewCtx(p, "lemmas")
			}
			c := NewCtx(p, "lemma:"+f.Clause.Label)
			st := &State{comps: map[string]Term{}}
			bad := false
			seenSelf := false
			for _, g := range p.Specs.Facts {
				if g == f {
					seenSelf = true
					continue
				}
				// usable: facts stated earlier in the same file, and the facts of the shared
				// library specification (whose own lemmas only use that file's earlier facts)
				if g.File == f.File && seenSelf {
					continue
				}
				if g.File != f.File && (f.File.PkgPath == "" || g.File.PkgPath != "") {
					continue
				}
				e := &Env{c: c, st: st, bind: map[string]TV{}, file: g.File}
				if g.File.PkgPath != "" {
					e.pkg = p.typesPkg(g.File.PkgPath)
				}
				if g.File.PkgPath != "" && g.File.PkgPath != f.File.PkgPath {
					continue
				}
				t, err := e.Bool(g.Clause.E)
				if err != nil {
					continue
				}
				c.assert(t)
				if g.Kind == "axiom" {
					assumed["axiom ["+g.Clause.Label+"]: "+g.Clause.Src] = true
				}
			}
			e := &Env{c: c, st: st, bind: map[string]TV{}, file: f.File}
			if f.File.PkgPath != "" {
				e.pkg = p.typesPkg(f.File.PkgPath)
			}
			t, err := e.Bool(f.Clause.E)
			o := &Obligation{Name: "lemma/" + f.Clause.Label, Kind: "lemma", Label: f.Clause.Label, Props: f.Clause.Props, PC: "true", Goal: t, Where: f.Clause.Where, Src: f.Clause.Src}
			if err == nil && f.Re != nil {
				// decided on the pattern of the real regular expression, in the solver's regex theory
				pat, ok := p.reSrc[f.File.PkgPath+"."+f.Re.Var]
				if _, mutable := mutableGlobalNamed(p, f.File.PkgPath, f.Re.Var); !ok || mutable {
					err = fmt.Errorf("%s.%s is not a package-level variable initialised once by regexp.MustCompile(<constant>)", f.File.PkgPath, f.Re.Var)
				} else if q, qerr := reLemmaQuery(pat, f.Re); qerr != nil {
					err = fmt.Errorf("pattern %q: %v", pat, qerr)
				} else {
					o.RawQuery = q
					o.Re = f.Re
					o.RePkg = f.File.PkgPath
					o.Kind = "relemma"
					o.Src += fmt.Sprintf("  pattern %q", pat)
				}
			}
			if err != nil {
				o.Status, o.Output, o.Goal = "error", "lemma does not bind: "+err.Error(), "false"
				bad = true
			}
			_ = bad
			o.CtxLen = len(c.lines)
			allObls = append(allObls, o)
			oblCtx[o] = c
		}
	}
	// solve
	var todo []*Obligation
	for _, o := range allObls {
		if o.Status == "" {
			todo = append(todo, o)
		}
	}
	solveStart := time.Now()
	sem := make(chan struct{}, 8)
	done := make(chan struct{})
	for _, o := range todo {
		o := o
		sem <- struct{}{}
		go func() {
			defer func() { <-sem; done <- struct{}{} }()
			if o.Kind == "vacuity" {
				solveVacuity(oblCtx[o], o, qdir)
				return
			}
			solve(oblCtx[o], o, qdir, timeout, *tier == "thorough")
		}()
	}
	for range todo {
		<-done
	}
	// second pass: an obligation that was not decided while competing with the others for
	// the cores is tried again with few neighbours and four times the time; only what is
	// still undecided then is reported (proof instability must not become an alarm)
	var retry []*Obligation
	for _, o := range todo {
		if o.Kind != "vacuity" && (o.Status == "timeout" || o.Status == "unknown") {
			retry = append(retry, o)
		}
	}
	if len(retry) > 0 {
		secondPass = true
		stillFailing := 0
		for i := 0; i < len(retry); i += 3 {
			// once three obligations stay undecided after their retry the tree is reported as
			// violating anyway; the remaining ones keep their first-pass status (this bounds the
			// time of a check on a tree that breaks many obligations)
			if stillFailing >= 3 {
				for _, o := range retry[i:] {
					o.Output += "\nsecond pass: skipped (three obligations already failed their retry)"
				}
				break
			}
			var wg sync.WaitGroup
			batch := retry[i:min(i+3, len(retry))]
			for _, o := range batch {
				o := o
				wg.Add(1)
				go func() {
					defer wg.Done()
					first := o.Output
					solve(oblCtx[o], o, qdir, timeout*4, *tier == "thorough")
					if o.Status != "unsat" {
						o.Output = first + "\nsecond pass: " + o.Output
					} else {
						o.Solver += " (second pass)"
					}
				}()
			}
			wg.Wait()
			for _, o := range batch {
				if o.Status != "unsat" {
					stillFailing++
				}
			}
		}
	}
	solveS := time.Since(solveStart).Seconds()

	known, fixed := loadKnown(knownPath)
	_ = fixed
	discharged := 0
	violations := 0
	var samples []map[string]any
	bySolver := map[string]int{}
	var solverMs int64
	var knownHit []string
	sort.Slice(allObls, func(i, j int) bool { return allObls[i].Name < allObls[j].Name })
	repByFn := map[string]*fnReport{}
	for _, r := range reports {
		repByFn[r.Name] = r
	}
	for _, o := range allObls {
		solverMs += o.Ms
		ok := o.Status == "unsat"
		if o.Kind == "vacuity" {
			// only a refutation of the entry assumptions is a finding; a solver that ran out of time
			// (its own limit, the CPU limit or the wall-clock guard) decided nothing
			ok = o.Status == "sat" || o.Status == "unknown" || o.Status == "timeout" || o.Status == "cancelled"
		}
		if ok {
			discharged++
			bySolver[o.Solver]++
			if len(samples) < 12 || *verbose {
				samples = append(samples, map[string]any{"obligation": o.Name, "kind": o.Kind, "solver": o.Solver, "ms": o.Ms, "status": "discharged", "clause": o.Src})
			}
			if *verbose {
				fmt.Printf("  ok   %-90s %s %dms\n", o.Name, o.Solver, o.Ms)
			}
			continue
		}
		// failed obligation
		isKnown := false
		for _, k := range known {
			if k.Property == *prop && k.Obligation == o.Name {
				isKnown = true
				fmt.Printf("KNOWN-FINDING: property=%s %s (obligation %s)\n", *prop, k.What, o.Name)
				knownHit = append(knownHit, o.Name+" :: "+k.What)
			}
		}
		if isKnown {
			continue
		}
		violations++
		rp := writeReplay(*verif, *prop, o)
		fmt.Printf("FAILED obligation %s [%s] at %s\n    clause: %s\n    solver: %s\n", o.Name, o.Status, o.Where, o.Src, firstLine(o.Output))
		if o.Re != nil && o.Status == "sat" {
			// the solver's model is a string: replay it against the real regular expression
			if tp, input, ok := replayReLemma(p, *verif, *prop, o); ok {
				fmt.Printf("    replayed on the real code: %s.%s matches %q\n", o.RePkg, o.Re.Var, input)
				fmt.Printf("VIOLATION property=%s replay=%s\n", *prop, tp)
				samples = append(samples, map[string]any{"obligation": o.Name, "kind": o.Kind, "status": "FAILED:sat (model replayed)", "clause": o.Src})
				continue
			}
		}
		fmt.Printf("VIOLATION property=%s replay=%s no-failing-input-found\n", *prop, rp)
		samples = append(samples, map[string]any{"obligation": o.Name, "kind": o.Kind, "status": "FAILED:" + o.Status, "clause": o.Src})
		if *doExplain && oblCtx[o] != nil {
			explain(oblCtx[o], o, qdir)
		}
	}
	total := len(allObls)
	wall := time.Since(start).Seconds()
	var asm []string
	for a := range assumed {
		asm = append(asm, a)
	}
	for _, s := range p.Specs.Scan {
		asm = append(asm, "scan: "+s)
	}
	sort.Strings(asm)
	if total == 0 {
		fmt.Printf("gocv: no obligations generated for %s — refusing to report success\n", *prop)
		violations++
		rp := writeReplay(*verif, *prop, &Obligation{Name: "no-obligations", Output: "zero obligations generated"})
		fmt.Printf("VIOLATION property=%s replay=%s no-failing-input-found\n", *prop, rp)
	}
	ev := map[string]any{
		"property_id": *prop,
		"tier":        *tier,
		"seed":        seed,
		"level":       "proof",
		"coverage": map[string]any{
			"obligations":              total - len(knownHit),
			"discharged":               discharged,
			"checker_cmd":              fmt.Sprintf("/verif/bin/gocv check --property %s --tier %s  (VCs over go/ssa of /repo's working tree, tag verif; solvers raced: z3-new 5.1.0, z3 4.8.12, cvc5 1.0; timeout %ds)", *prop, *tier, timeout),
			"trusted_base":             []string{"gocv VC generator (SSA -> SMT-LIB translation, /verif/gocv)", "golang.org/x/tools/go/ssa v0.29.0", "z3 4.8.12 / z3 5.1.0 / cvc5 1.0", "assumed contracts and axioms listed under assumptions"},
			"functions_under_contract": reports,
			"samples":                  samples,
			"solver_time_s":            float64(solverMs) / 1000.0,
			"solve_wall_s":             solveS,
			"load_s":                   loadS,
			"discharged_by_solver":     bySolver,
			"known_findings":           knownHit,
			"engine_errors":            engineErrors,
			"integers":                 "mathematical Int with range facts at origins; + - * on sized ints wrap around (two's complement) unless the function opts into overflow obligations",
		},
		"assumptions": asm,
		"wall_s":      wall,
		"violations":  violations,
	}
	os.MkdirAll(filepath.Join(*verif, "evidence"), 0o755)
	bs, _ := json.MarshalIndent(ev, "", " ")
	os.WriteFile(filepath.Join(*verif, "evidence", *prop+".json"), bs, 0o644)
	fmt.Printf("gocv %s %s: %d functions under contract, %d obligations, %d discharged, %d known findings, %d violations, %.1fs (load %.1fs, solve %.1fs)\n",
		*prop, *tier, len(reports), total, discharged, len(knownHit), violations, wall, loadS, solveS)
	if violations > 0 {
		return 1
	}
	if os.Getenv("GOCV_KEEP_QUERIES") == "" {
		os.RemoveAll(qdir)
	}
	return 0
}

func entryLen(c *Ctx) int {
	// the first obligation's context is a superset of the entry assumptions; use the
	// smallest recorded prefix, or everything if no obligation exists
	n := len(c.lines)
	for _, o := range c.obls {
		if o.CtxLen < n {
			n = o.CtxLen
		}
	}
	return n
}

func solveVacuity(c *Ctx, o *Obligation, dir string) {
	var b strings.Builder
	b.WriteString("(set-logic ALL)\n")
	for _, l := range c.sortDecls {
		b.WriteString(l)
		b.WriteByte('\n')
	}
	for i := 0; i < o.CtxLen; i++ {
		b.WriteString(c.lines[i])
		b.WriteByte('\n')
	}
	b.WriteString("(check-sat)\n")
	f := filepath.Join(dir, sanitize(o.Name)+".smt2")
	os.WriteFile(f, []byte(b.String()), 0o644)
	r := runSolverSimple(solvers[0], f, 2)
	o.Status, o.Solver, o.Ms, o.Output = r.status, r.solver, r.ms, r.out
	if o.Status != "unsat" {
		os.Remove(f)
	} else {
		o.Output = "assumptions at function entry are contradictory (vacuous contract)\n" + o.Output
	}
}

func hasProp(ps []string, p string) bool {
	for _, q := range ps {
		if q == p {
			return true
		}
	}
	return false
}

func firstLine(s string) string {
	if i := strings.IndexByte(s, '\n'); i >= 0 {
		return s[:i]
	}
	return s
}

func writeReplay(verif, prop string, o *Obligation) string {
	dir := filepath.Join(verif, "replay", prop)
	os.MkdirAll(dir, 0o755)
	name := sanitize(o.Name)
	if len(name) > 150 {
		name = name[:150]
	}
	path := filepath.Join(dir, name+".txt")
	var b strings.Builder
	fmt.Fprintf(&b, "property: %s\nfailed obligation: %s\nkind: %s\nsource: %s\nclause: %s\nstatus: %s\n", prop, o.Name, o.Kind, o.Where, o.Src, o.Status)
	fmt.Fprintf(&b, "query: %s\n\nverifier output:\n%s\n", o.Query, o.Output)
	fmt.Fprintf(&b, "\nno-failing-input-found: the solver gave no model that was replayed against the real code.\n")
	os.WriteFile(path, []byte(b.String()), 0o644)
	return path
}

func reportLoadFailure(prop, tier string, seed int, verif string, err error, start time.Time) int {
	o := &Obligation{Name: "load/binding:tree-does-not-load", Kind: "binding", Status: "error", Output: err.Error()}
	rp := writeReplay(verif, prop, o)
	fmt.Printf("VIOLATION property=%s replay=%s no-failing-input-found\n", prop, rp)
	ev := map[string]any{"property_id": prop, "tier": tier, "seed": seed, "level": "proof",
		"coverage": map[string]any{"obligations": 1, "discharged": 0, "checker_cmd": "gocv check", "trusted_base": []string{}, "explanation": "tree does not load"},
		"wall_s":   time.Since(start).Seconds(), "violations": 1}
	bs, _ := json.MarshalIndent(ev, "", " ")
	os.MkdirAll(filepath.Join(verif, "evidence"), 0o755)
	os.WriteFile(filepath.Join(verif, "evidence", prop+".json"), bs, 0o644)
	return 1
}

func cmdDump(args []string) int {
	fs := flag.NewFlagSet("dump", flag.ExitOnError)
	repo := fs.String("repo", "/repo", "repository")
	verif := fs.String("verif", "/verif", "verif dir")
	fn := fs.String("func", "", "function key substring")
	fs.Parse(args)
	p, err := LoadProgram(*repo, filepath.Join(*verif, "specs"))
	if err != nil {
		fmt.Fprintln(os.Stderr, err)
		return 1
	}
	var keys []string
	for k := range p.Funcs {
		if strings.Contains(k, *fn) {
			keys = append(keys, k)
		}
	}
	sort.Strings(keys)
	for _, k := range keys {
		f := p.Funcs[k]
		fmt.Printf("== %s  (display %s)\n", k, displayName(f))
		if len(keys) <= 3 {
			f.WriteTo(os.Stdout)
			c, err := VerifyFunction(p, f, p.ContractFor(f))
			if err != nil {
				fmt.Println("error:", err)
				continue
			}
			for _, l := range c.sortDecls {
				fmt.Println(l)
			}
			for _, l := range c.lines {
				fmt.Println(l)
			}
			for _, o := range c.obls {
				fmt.Printf("; OBL %s pc=%s goal=%s\n", o.Name, o.PC, o.Goal)
			}
			for _, u := range c.unsupp {
				fmt.Println("; UNSUPPORTED", u)
			}
		}
	}
	return 0
}

var _ = ssa.NaiveForm

func mutableGlobalNamed(p *Program, pkgPath, name string) (*ssa.Global, bool) {
	for g := range p.mutGlob {
		if g.Pkg.Pkg.Path() == pkgPath && g.Name() == name {
			return g, true
		}
	}
	return nil, false
}

// atomicGuaranteeScan: one obligation per access to the field in the module (syntactic).
func atomicGuaranteeScan(p *Program, key string, ar *AtomicRely) []*Obligation {
	var out []*Obligation
	var fns []*ssa.Function
	for _, fn := range p.Funcs {
		if p.inModule(fn) {
			fns = append(fns, fn)
		}
	}
	sort.Slice(fns, func(i, j int) bool { return funcInstKey(fns[i]) < funcInstKey(fns[j]) })
	isField := func(v ssa.Value) bool {
		fa, ok := v.(*ssa.FieldAddr)
		if !ok {
			return false
		}
		pt, ok := fa.X.Type().Underlying().(*types.Pointer)
		if !ok {
			return false
		}
		n, ok := pt.Elem().(*types.Named)
		if !ok || n.Obj().Pkg() == nil {
			return false
		}
		st, ok := n.Underlying().(*types.Struct)
		if !ok {
			return false
		}
		return n.Obj().Pkg().Path()+"."+n.Obj().Name()+"."+st.Field(fa.Field).Name() == key
	}
	n := 0
	for _, fn := range fns {
		for _, b := range fn.Blocks {
			for _, in := range b.Instrs {
				verdict, what := "", ""
				switch x := in.(type) {
				case *ssa.Store:
					if isField(x.Addr) {
						verdict, what = "bad", "plain (non-atomic) store"
					}
				case *ssa.Call:
					cf := x.Call.StaticCallee()
					if cf == nil || cf.Pkg == nil || cf.Pkg.Pkg.Path() != "sync/atomic" || len(x.Call.Args) == 0 || !isField(x.Call.Args[0]) {
						continue
					}
					switch cf.Name() {
					case "LoadInt32":
						verdict, what = "ok", "atomic load"
					case "CompareAndSwapInt32":
						what = "compare-and-swap"
						verdict = "bad"
						if k, ok := x.Call.Args[1].(*ssa.Const); ok && k.Value != nil {
							if v, exact := constant.Int64Val(k.Value); exact && int(v) == ar.From {
								verdict = "ok"
							}
						}
					default:
						verdict, what = "bad", "atomic "+cf.Name()
					}
				}
				if verdict == "" {
					continue
				}
				n++
				o := &Obligation{Name: fmt.Sprintf("guarantee/%s#%d:%s", shortenPaths(strings.ReplaceAll(funcInstKey(fn), modulePath+"/", "")), n, strings.ReplaceAll(ar.Field, ".", "_")),
					Kind: "guarantee", Label: "atomic-guarantee", PC: "true", Goal: "true", Where: p.pos(in.Pos()) + " (" + ar.Where + ")",
					Src: fmt.Sprintf("%s of %s: the word changes only by compare-and-swap from %d", what, ar.Field, ar.From)}
				if verdict == "ok" {
					o.Status, o.Solver = "unsat", "syntactic"
				} else {
					o.Status, o.Goal, o.Output = "sat", "false", what+" breaks the guarantee that "+ar.Field+" only changes from "+fmt.Sprint(ar.From)
				}
				out = append(out, o)
			}
		}
	}
	return out
}
