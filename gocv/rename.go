package main

// Robustness against harmless renames of local variables and parameters.
//
// /verif/baseline_src holds a copy of the source files of the packages under contract, taken
// when the contracts were last validated. For every function declaration that prints
// identically in the baseline and in the current tree once its local identifiers are replaced
// by placeholders (in order of first occurrence), the differing names give a rename map
// old -> new; contract clauses written with the old names are then resolved with the new ones.
// Any other difference yields no map (the contract must bind as written).

import (
	"bytes"
	"go/ast"
	goparser "go/parser"
	"go/printer"
	"go/token"
	"os"
	"path/filepath"
	"strings"

	"golang.org/x/tools/go/ssa"
)

type renameMaps struct {
	byDecl map[string]map[string][]string // "<rel file dir>/<recv>.<name>" -> old name -> new names of the variables that had it
}

func declKey(d *ast.FuncDecl) string {
	k := d.Name.Name
	if d.Recv != nil && len(d.Recv.List) > 0 {
		var b bytes.Buffer
		printer.Fprint(&b, token.NewFileSet(), d.Recv.List[0].Type)
		k = b.String() + "." + k
	}
	return k
}

// skeleton prints the declaration with its local identifiers replaced by placeholders and
// returns the original names in placeholder order.
func skeleton(fset *token.FileSet, d *ast.FuncDecl) (string, []string) {
	var names []string
	idx := map[*ast.Object]int{}
	restore := map[*ast.Ident]string{}
	// Object.Pos() finds the declaring identifier by name: decide locality before renaming
	local := map[*ast.Object]bool{}
	ast.Inspect(d, func(n ast.Node) bool {
		if id, ok := n.(*ast.Ident); ok && id.Obj != nil && id.Obj.Kind == ast.Var {
			if _, done := local[id.Obj]; !done {
				p := id.Obj.Pos()
				local[id.Obj] = p >= d.Pos() && p <= d.End()
			}
		}
		return true
	})
	ast.Inspect(d, func(n ast.Node) bool {
		id, ok := n.(*ast.Ident)
		if !ok || id.Obj == nil || id.Obj.Kind != ast.Var || id.Name == "_" {
			return true
		}
		if !local[id.Obj] {
			return true
		}
		i, seen := idx[id.Obj]
		if !seen {
			i = len(names)
			idx[id.Obj] = i
			names = append(names, id.Name)
		}
		restore[id] = id.Name
		id.Name = "ǁv" + itoa(i)
		return true
	})
	var b bytes.Buffer
	cfg := printer.Config{Mode: printer.RawFormat}
	cfg.Fprint(&b, fset, d)
	for id, nm := range restore {
		id.Name = nm
	}
	// comments are not part of the comparison: print without them by stripping the Doc
	return b.String(), names
}

func itoa(i int) string {
	if i == 0 {
		return "0"
	}
	s := ""
	for i > 0 {
		s = string(rune('0'+i%10)) + s
		i /= 10
	}
	return s
}

func parseDecls(path string) (*token.FileSet, map[string]*ast.FuncDecl) {
	fset := token.NewFileSet()
	f, err := goparser.ParseFile(fset, path, nil, 0) // no comments
	if err != nil {
		return nil, nil
	}
	out := map[string]*ast.FuncDecl{}
	for _, d := range f.Decls {
		if fd, ok := d.(*ast.FuncDecl); ok {
			out[declKey(fd)] = fd
		}
	}
	return fset, out
}

func loadRenames(repo, baselineDir string) *renameMaps {
	rm := &renameMaps{byDecl: map[string]map[string][]string{}}
	if _, err := os.Stat(baselineDir); err != nil {
		return rm
	}
	filepath.Walk(baselineDir, func(path string, info os.FileInfo, err error) error {
		if err != nil || info.IsDir() || !strings.HasSuffix(path, ".go") {
			return nil
		}
		rel, _ := filepath.Rel(baselineDir, path)
		cur := filepath.Join(repo, rel)
		if _, err := os.Stat(cur); err != nil {
			return nil
		}
		bf, bdecls := parseDecls(path)
		cf, cdecls := parseDecls(cur)
		if bdecls == nil || cdecls == nil {
			return nil
		}
		for k, bd := range bdecls {
			cd, ok := cdecls[k]
			if !ok {
				continue
			}
			bs, bn := skeleton(bf, bd)
			cs, cn := skeleton(cf, cd)
			if bs != cs || len(bn) != len(cn) {
				continue
			}
			m := map[string][]string{}
			for i := range bn {
				if !inList(m[bn[i]], cn[i]) {
					m[bn[i]] = append(m[bn[i]], cn[i])
				}
			}
			for o, ns := range m {
				if len(ns) == 1 && ns[0] == o {
					delete(m, o)
				}
			}
			if len(m) > 0 {
				rm.byDecl[filepath.Dir(rel)+"/"+k] = m
			}
		}
		return nil
	})
	return rm
}

// renamesFor: the rename map of the declaration that contains fn (closures share their
// enclosing declaration's map).
func (p *Program) renamesFor(fn *ssa.Function) map[string][]string {
	if p.Renames == nil || len(p.Renames.byDecl) == 0 || fn == nil {
		return nil
	}
	top := fn
	for top.Parent() != nil {
		top = top.Parent()
	}
	if o := top.Origin(); o != nil {
		top = o
	}
	fd, ok := top.Syntax().(*ast.FuncDecl)
	if !ok {
		return nil
	}
	pos := p.Fset.Position(fd.Pos())
	rel, err := filepath.Rel(p.Repo, pos.Filename)
	if err != nil {
		return nil
	}
	return p.Renames.byDecl[filepath.Dir(rel)+"/"+declKey(fd)]
}
