package main

import (
	"fmt"
	"os"
	"path/filepath"
	"strings"
)

// splitSexp splits the top-level elements of "(a b (c d))" -> ["a","b","(c d)"].
func splitSexp(s string) []string {
	s = strings.TrimSpace(s)
	if !strings.HasPrefix(s, "(") || !strings.HasSuffix(s, ")") {
		return []string{s}
	}
	s = s[1 : len(s)-1]
	var out []string
	depth := 0
	start := -1
	for i := 0; i < len(s); i++ {
		ch := s[i]
		switch {
		case ch == '(':
			if depth == 0 && start < 0 {
				start = i
			}
			depth++
		case ch == ')':
			depth--
			if depth == 0 {
				out = append(out, s[start:i+1])
				start = -1
			}
		case ch == ' ' || ch == '\n' || ch == '\t':
			if depth == 0 && start >= 0 {
				out = append(out, s[start:i])
				start = -1
			}
		default:
			if start < 0 {
				start = i
			}
		}
	}
	if start >= 0 {
		out = append(out, s[start:])
	}
	return out
}

func conjuncts(goal string) []string {
	parts := splitSexp(goal)
	if len(parts) < 2 || !strings.HasPrefix(strings.TrimSpace(goal), "(") {
		return []string{goal}
	}
	switch parts[0] {
	case "and":
		var out []string
		for _, p := range parts[1:] {
			out = append(out, conjuncts(p)...)
		}
		return out
	case "=>":
		if len(parts) == 3 {
			var out []string
			for _, c := range conjuncts(parts[2]) {
				out = append(out, "(=> "+parts[1]+" "+c+")")
			}
			return out
		}
	case "forall":
		if len(parts) == 3 {
			var out []string
			for _, c := range conjuncts(parts[2]) {
				out = append(out, "(forall "+parts[1]+" "+c+")")
			}
			return out
		}
	}
	return []string{goal}
}

// explain re-solves every top-level conjunct of a failed goal separately.
func explain(c *Ctx, o *Obligation, dir string) {
	cs := conjuncts(o.Goal)
	if len(cs) <= 1 {
		return
	}
	fmt.Printf("    explain: %d conjuncts\n", len(cs))
	type res struct {
		status string
	}
	out := make([]string, len(cs))
	sem := make(chan struct{}, 12)
	done := make(chan int, len(cs))
	for i, g := range cs {
		i, g := i, g
		sem <- struct{}{}
		go func() {
			defer func() { <-sem; done <- i }()
			sub := &Obligation{Name: fmt.Sprintf("%s.conj%d", o.Name, i), CtxLen: o.CtxLen, PC: o.PC, Goal: g}
			f := filepath.Join(dir, sanitize(sub.Name)+".smt2")
			os.WriteFile(f, []byte(buildQuery(c, sub, false)), 0o644)
			r := runSolverSimple(solvers[0], f, 4)
			out[i] = r.status
			os.Remove(f)
		}()
	}
	for range cs {
		<-done
	}
	for i, g := range cs {
		mark := "ok  "
		if out[i] != "unsat" {
			mark = "FAIL"
		}
		fmt.Printf("      %s [%s] %s\n", mark, out[i], truncate(g, 300))
	}
}
