package main

import (
	"encoding/json"
	"fmt"
	"os"
	"os/exec"
	"path/filepath"
	"regexp"
	"strconv"
	"strings"
	"time"
)

// replayReLemma asks the solver for the string of its model and runs it against the real
// regular expression of the repository (an in-package test injected with -overlay, nothing
// is written to the repository). ok: the real code confirms the violation.
func replayReLemma(p *Program, verif, prop string, o *Obligation) (testPath, input string, ok bool) {
	dir := filepath.Join(verif, "replay", prop)
	os.MkdirAll(dir, 0o755)
	q := filepath.Join(dir, sanitize(o.Name)+".model.smt2")
	os.WriteFile(q, []byte(strings.Replace(o.RawQuery, "(check-sat)", "(check-sat)\n(get-value (s))", 1)), 0o644)
	out, _ := exec.Command("z3-new", "-T:30", q).CombinedOutput()
	m := regexp.MustCompile(`\(\(s "((?:[^"]|"")*)"\)\)`).FindStringSubmatch(string(out))
	if m == nil {
		return "", "", false
	}
	input = strings.ReplaceAll(m[1], `""`, `"`)
	input = regexp.MustCompile(`\\u\{([0-9a-fA-F]+)\}`).ReplaceAllStringFunc(input, func(e string) string {
		n, _ := strconv.ParseInt(e[3:len(e)-1], 16, 32)
		return string(rune(n))
	})
	pk := p.Pkgs[o.RePkg]
	if pk == nil || len(pk.GoFiles) == 0 {
		return "", input, false
	}
	pkgDir := filepath.Dir(pk.GoFiles[0])
	var cond string
	switch o.Re.Kind {
	case "excludes":
		cond = fmt.Sprintf("strings.ContainsAny(in, %q)", o.Re.Chars)
	case "nonempty":
		cond = `in == ""`
	case "maxlen":
		cond = fmt.Sprintf("len(in) > %d", o.Re.N)
	}
	src := fmt.Sprintf(`package %s

import (
	"strings"
	"testing"
)

// Replay of the verifier's counterexample for obligation %s:
// the real regular expression accepts an input the lemma excludes.
func TestVerifReplay(t *testing.T) {
	in := %q
	_ = strings.ContainsAny
	if !%s.MatchString(in) {
		t.Fatalf("not reproduced: %%q is rejected", in)
	}
	if !(%s) {
		t.Fatalf("not reproduced: %%q does not violate the lemma", in)
	}
	t.Logf("reproduced: %s accepts %%q", in)
}
`, pk.Name, o.Name, input, o.Re.Var, cond, o.Re.Var)
	testPath = filepath.Join(dir, sanitize(o.Name)+"_replay_test.go")
	os.WriteFile(testPath, []byte(src), 0o644)
	ov := filepath.Join(dir, sanitize(o.Name)+".overlay.json")
	bs, _ := json.Marshal(map[string]any{"Replace": map[string]string{filepath.Join(pkgDir, "zz_verif_replay_test.go"): testPath}})
	os.WriteFile(ov, bs, 0o644)
	rel, _ := filepath.Rel(p.Repo, pkgDir)
	cmd := exec.Command("go", "test", "-overlay", ov, "-vet=off", "-count=1", "-timeout", "60s", "-run", "^TestVerifReplay$", "./"+rel+"/")
	cmd.Dir = p.Repo
	cmd.Env = append(os.Environ(), "GOFLAGS=-mod=mod", "GOPROXY=off", "GOSUMDB=off", "GOTOOLCHAIN=local")
	done := make(chan struct{})
	var tout []byte
	var terr error
	go func() { tout, terr = cmd.CombinedOutput(); close(done) }()
	select {
	case <-done:
	case <-time.After(120 * time.Second):
		if cmd.Process != nil {
			cmd.Process.Kill()
		}
		return testPath, input, false
	}
	f, _ := os.OpenFile(testPath, os.O_APPEND|os.O_WRONLY, 0o644)
	if f != nil {
		fmt.Fprintf(f, "\n// go test -overlay %s -vet=off -run ^TestVerifReplay$ ./%s/  (in the repository):\n// %s\n", ov, rel, strings.ReplaceAll(strings.TrimSpace(string(tout)), "\n", "\n// "))
		f.Close()
	}
	return testPath, input, terr == nil
}
