package main

// Contract files: comment-only Go files `zz_verif_contracts.go` (build tag
// verif) in the packages of /repo, and /verif/specs/*.spec for code outside
// the module. Only lines starting with `//@` are read.

import (
	"bufio"
	"fmt"
	"os"
	"path/filepath"
	"regexp"
	"sort"
	"strconv"
	"strings"
)

type Clause struct {
	Assumed  bool // postcondition assumed at call sites, not checked against the body
	AtReturn int // >= 0: applies only to the n-th return (source order); -1: every return
	Label string
	Props []string
	Src   string
	E     Expr
	Where string // file:line
}

func (c *Clause) HasProp(p string) bool {
	for _, q := range c.Props {
		if q == p {
			return true
		}
	}
	return false
}

type LoopSpec struct {
	Invs      []*Clause
	Decreases *Clause
	Sets      []*GhostSet // ghost updates applied on every back edge
	BreakSets []*GhostSet // ghost updates applied on every edge that leaves the loop from its body (break, not the head's exit)
}

type GhostSet struct {
	Name string
	Args []Expr
	Val  Expr
	Src  string
}

type CallSpec struct {
	Pattern  string
	Requires []*Clause
	Sets     []*GhostSet
	Assumes  []*Clause // trusted facts assumed after the call (listed)
}

type LetDef struct {
	Name string
	E    Expr
}

type FuncContract struct {
	Kind     string // "func", "iface", "extern", "callback"
	Name     string
	PkgPath  string // package in whose scope names resolve
	Params   []string // explicit parameter names (extern/iface/callback); optional
	Requires []*Clause
	Ensures  []*Clause
	Modifies []string
	HasMod   bool
	Loops    map[int]*LoopSpec
	Calls    []*CallSpec
	Lets     []LetDef
	Trusted  bool
	Inline   bool
	Opts     map[string]bool
	Serves   []string
	ExitSets []*GhostSet
	EntrySets []*GhostSet
	Callees  map[string]string // func-valued variable name -> callback contract
	Where    string
	File     *SpecFile
}

type PureDecl struct {
	Name    string
	Params  []QVar
	Result  *TypeExpr
	Def     Expr
	File    *SpecFile
	Where   string
}

type GhostDecl struct {
	Name   string
	Params []QVar
	Result *TypeExpr
	File   *SpecFile
	Local  bool // function-private ghost (e.g. a counter): never havocked by calls without a contract
}

type AtomicRely struct {
	Props   []string
	Field   string
	PkgPath string
	From    int
	Where   string
}

type FactDecl struct {
	Re     *ReLemma // regular-expression lemma (decided on the pattern read from the program)
	Kind   string // "axiom" or "lemma"
	Clause *Clause
	File   *SpecFile
}

type SpecFile struct {
	Path    string
	PkgPath string            // package path the file belongs to ("" for /verif/specs)
	Imports map[string]string // local name -> import path
}

type Specs struct {
	Funcs      map[string]*FuncContract // key: qualified name  pkgpath.Name / pkgpath.(*T).M / iface:pkgpath.I.M
	Pures      map[string]*PureDecl
	Ghosts     map[string]*GhostDecl
	Facts      []*FactDecl
	FuncFields map[string]string // "pkgpath.Type.Field" -> callback contract name
	Files      []*SpecFile
	Scan       []string // trusted/assume/extern scan
	Atomics    map[string]*AtomicRely // "pkgpath.Type.field"
}

var clauseKeywords = map[string]bool{
	"package": true, "import": true, "pure": true, "ghost": true, "axiom": true, "lemma": true, "relemma": true, "atomic": true,
	"func": true, "iface": true, "extern": true, "callback": true, "funcfield": true,
	"requires": true, "ensures": true, "assumes": true, "modifies": true, "loop": true, "call": true, "let": true,
	"trusted": true, "inline": true, "opt": true, "serves": true, "exit": true, "entry": true, "callee": true,
}

var labelRe = regexp.MustCompile(`^\[([^\]]*)\]\s*`)

func parseLabel(s string) (label string, props []string, rest string) {
	m := labelRe.FindStringSubmatch(s)
	if m == nil {
		return "", nil, s
	}
	rest = s[len(m[0]):]
	lab := m[1]
	if i := strings.Index(lab, ":"); i >= 0 {
		for _, p := range strings.Split(lab[:i], ",") {
			props = append(props, strings.TrimSpace(p))
		}
		lab = lab[i+1:]
	}
	return strings.TrimSpace(lab), props, rest
}

func LoadSpecs(files []string, pkgPathOf func(file string) string) (*Specs, error) {
	sp := &Specs{Funcs: map[string]*FuncContract{}, Pures: map[string]*PureDecl{}, Ghosts: map[string]*GhostDecl{}, FuncFields: map[string]string{}}
	sort.Strings(files)
	for _, f := range files {
		if err := sp.loadFile(f, pkgPathOf(f)); err != nil {
			return nil, err
		}
	}
	return sp, nil
}

type rawClause struct {
	text string
	line int
}

func (sp *Specs) loadFile(path, pkgPath string) error {
	fh, err := os.Open(path)
	if err != nil {
		return err
	}
	defer fh.Close()
	sf := &SpecFile{Path: path, PkgPath: pkgPath, Imports: map[string]string{}}
	sp.Files = append(sp.Files, sf)
	var raws []rawClause
	sc := bufio.NewScanner(fh)
	sc.Buffer(make([]byte, 1<<20), 1<<20)
	ln := 0
	for sc.Scan() {
		ln++
		line := sc.Text()
		t := strings.TrimSpace(line)
		if !strings.HasPrefix(t, "//@") {
			continue
		}
		body := strings.TrimSpace(t[3:])
		// strip trailing comment " // ..."
		if i := strings.Index(body, " // "); i >= 0 {
			body = strings.TrimSpace(body[:i])
		}
		if body == "" || strings.HasPrefix(body, "//") {
			continue
		}
		first := body
		if i := strings.IndexAny(body, " \t"); i >= 0 {
			first = body[:i]
		}
		if clauseKeywords[first] || strings.HasPrefix(first, "ensures@") {
			raws = append(raws, rawClause{body, ln})
		} else {
			if len(raws) == 0 {
				return fmt.Errorf("%s:%d: continuation without clause", path, ln)
			}
			raws[len(raws)-1].text += " " + body
		}
	}
	var cur *FuncContract
	for _, rc := range raws {
		where := fmt.Sprintf("%s:%d", filepath.Base(filepath.Dir(path))+"/"+filepath.Base(path), rc.line)
		kw, rest := rc.text, ""
		if i := strings.IndexAny(rc.text, " \t"); i >= 0 {
			kw, rest = rc.text[:i], strings.TrimSpace(rc.text[i:])
		}
		fail := func(err error) error { return fmt.Errorf("%s: %v", where, err) }
		mkClause := func(s string) (*Clause, error) {
			lab, props, r := parseLabel(s)
			e, err := ParseExpr(r)
			if err != nil {
				return nil, fail(err)
			}
			return &Clause{AtReturn: -1, Label: lab, Props: props, Src: r, E: e, Where: where}, nil
		}
		switch kw {
		case "package":
		case "import":
			parts := strings.Fields(rest)
			if len(parts) == 1 {
				p, _ := strconv.Unquote(parts[0])
				sf.Imports[filepath.Base(p)] = p
			} else if len(parts) == 2 {
				p, _ := strconv.Unquote(parts[1])
				sf.Imports[parts[0]] = p
			} else {
				return fail(fmt.Errorf("bad import"))
			}
		case "pure", "ghost":
			local := false
			if kw == "ghost" && strings.HasPrefix(rest, "local ") {
				local = true
				rest = strings.TrimSpace(rest[6:])
			}
			name, params, result, def, err := parseDeclHead(rest)
			if err != nil {
				return fail(err)
			}
			if kw == "pure" {
				if _, dup := sp.Pures[name]; dup {
					return fail(fmt.Errorf("duplicate pure %s", name))
				}
				sp.Pures[name] = &PureDecl{Name: name, Params: params, Result: result, Def: def, File: sf, Where: where}
			} else {
				if _, dup := sp.Ghosts[name]; dup {
					return fail(fmt.Errorf("duplicate ghost %s", name))
				}
				sp.Ghosts[name] = &GhostDecl{Name: name, Params: params, Result: result, File: sf, Local: local}
			}
		case "atomic":
			// `atomic T.f changes-only-from <n>`: rely/guarantee for a field accessed with sync/atomic
			_, aprops, arest := parseLabel(rest)
			f := strings.Fields(arest)
			if len(f) != 3 || f[1] != "changes-only-from" {
				return fail(fmt.Errorf("atomic: want `[Cxx:label] T.f changes-only-from <n>`"))
			}
			n, err := strconv.Atoi(f[2])
			if err != nil {
				return fail(err)
			}
			if sp.Atomics == nil {
				sp.Atomics = map[string]*AtomicRely{}
			}
			sp.Atomics[pkgPath+"."+f[0]] = &AtomicRely{Field: f[0], PkgPath: pkgPath, From: n, Where: where, Props: aprops}
			sp.Scan = append(sp.Scan, fmt.Sprintf("rely: other goroutines change %s only when it holds %d (guaranteed by every atomic write to it in the module) (%s)", f[0], n, where))
		case "relemma":
			lab, props, r2 := parseLabel(rest)
			rl, src, err := parseReLemma(r2)
			if err != nil {
				return fail(err)
			}
			e, err := ParseExpr(src)
			if err != nil {
				return fail(err)
			}
			c := &Clause{AtReturn: -1, Label: lab, Props: props, Src: "relemma " + r2 + "  (" + src + ")", E: e, Where: where}
			sp.Facts = append(sp.Facts, &FactDecl{Kind: "lemma", Clause: c, File: sf, Re: rl})
		case "axiom", "lemma":
			c, err := mkClause(rest)
			if err != nil {
				return err
			}
			sp.Facts = append(sp.Facts, &FactDecl{Kind: kw, Clause: c, File: sf})
			if kw == "axiom" {
				sp.Scan = append(sp.Scan, fmt.Sprintf("axiom [%s] %s (%s)", c.Label, c.Src, where))
			}
		case "func", "iface", "extern", "callback":
			name := rest
			var params []string
			if i := strings.Index(rest, " params "); i >= 0 {
				name = strings.TrimSpace(rest[:i])
				for _, p := range strings.Split(rest[i+8:], ",") {
					params = append(params, strings.TrimSpace(p))
				}
			}
			cur = &FuncContract{Kind: kw, Name: name, PkgPath: pkgPath, Params: params, Loops: map[int]*LoopSpec{}, Opts: map[string]bool{}, Where: where, File: sf}
			key := sp.funcKey(kw, name, sf)
			if _, dup := sp.Funcs[key]; dup {
				return fail(fmt.Errorf("duplicate contract for %s", key))
			}
			sp.Funcs[key] = cur
			if kw == "extern" {
				cur.Trusted = true
				sp.Scan = append(sp.Scan, fmt.Sprintf("extern %s (%s)", key, where))
			}
			if kw == "iface" || kw == "callback" {
				cur.Trusted = true
			}
		case "funcfield":
			parts := strings.Fields(rest)
			if len(parts) != 2 {
				return fail(fmt.Errorf("funcfield Type.Field callbackName"))
			}
			sp.FuncFields[sp.qualify(parts[0], sf)] = parts[1]
		default:
			if cur == nil {
				return fail(fmt.Errorf("clause %q outside a func block", kw))
			}
			atRet := -1
			if strings.HasPrefix(kw, "ensures@") {
				n, err := strconv.Atoi(kw[8:])
				if err != nil {
					return fail(fmt.Errorf("ensures@N: %v", err))
				}
				atRet = n
				kw = "ensures"
			}
			assumedPost := false
			if kw == "assumes" {
				// a postcondition the callers may use but the body is not checked against: an
				// assumption about what the function's callees (other libraries, the registry, the
				// hash function) make true; listed with the other assumptions
				assumedPost = true
				kw = "ensures"
			}
			switch kw {
			case "requires", "ensures":
				c, err := mkClause(rest)
				if err != nil {
					return err
				}
				c.Assumed = assumedPost
				if assumedPost {
					sp.Scan = append(sp.Scan, fmt.Sprintf("assumed postcondition of %s [%s]: %s (%s)", cur.Name, c.Label, c.Src, where))
				}
				c.AtReturn = atRet
				if kw == "requires" {
					cur.Requires = append(cur.Requires, c)
				} else {
					cur.Ensures = append(cur.Ensures, c)
				}
			case "modifies":
				cur.HasMod = true
				for _, m := range strings.Split(rest, ",") {
					m = strings.TrimSpace(m)
					if m != "" && m != "nothing" {
						cur.Modifies = append(cur.Modifies, m)
					}
				}
			case "trusted":
				cur.Trusted = true
				sp.Scan = append(sp.Scan, fmt.Sprintf("trusted %s.%s (%s)", pkgPath, cur.Name, where))
			case "callee":
				// callee <variable> <callback>: dynamic calls through this func-valued variable use the callback contract
				parts := strings.Fields(rest)
				if len(parts) != 2 {
					return fail(fmt.Errorf("callee <variable> <callback>"))
				}
				if cur.Callees == nil {
					cur.Callees = map[string]string{}
				}
				cur.Callees[parts[0]] = parts[1]
			case "inline":
				cur.Inline = true
			case "serves":
				for _, o := range strings.FieldsFunc(rest, func(r rune) bool { return r == ',' || r == ' ' }) {
					cur.Serves = append(cur.Serves, o)
				}
			case "opt":
				for _, o := range strings.Fields(rest) {
					cur.Opts[o] = true
				}
			case "let":
				i := strings.Index(rest, "=")
				if i < 0 {
					return fail(fmt.Errorf("let name = expr"))
				}
				e, err := ParseExpr(strings.TrimSpace(rest[i+1:]))
				if err != nil {
					return fail(err)
				}
				cur.Lets = append(cur.Lets, LetDef{strings.TrimSpace(rest[:i]), e})
			case "loop":
				parts := strings.SplitN(rest, " ", 3)
				if len(parts) < 3 {
					return fail(fmt.Errorf("loop k invariant|decreases expr"))
				}
				k, err := strconv.Atoi(parts[0])
				if err != nil {
					return fail(err)
				}
				ls := cur.Loops[k]
				if ls == nil {
					ls = &LoopSpec{}
					cur.Loops[k] = ls
				}
				if parts[1] == "backedge" || parts[1] == "break" {
					if !strings.HasPrefix(strings.TrimSpace(parts[2]), "set ") {
						return fail(fmt.Errorf("loop k backedge|break set g(args) = e"))
					}
					gs, err := parseGhostSet(strings.TrimSpace(strings.TrimSpace(parts[2])[4:]))
					if err != nil {
						return fail(err)
					}
					if parts[1] == "break" {
						ls.BreakSets = append(ls.BreakSets, gs)
					} else {
						ls.Sets = append(ls.Sets, gs)
					}
					continue
				}
				c, err := mkClause(strings.TrimSpace(parts[2]))
				if err != nil {
					return err
				}
				switch parts[1] {
				case "invariant":
					ls.Invs = append(ls.Invs, c)
				case "decreases":
					ls.Decreases = c
				default:
					return fail(fmt.Errorf("loop: unknown %q", parts[1]))
				}
			case "entry":
				// entry set g(args) = e   (ghost initialisation at function entry)
				if !strings.HasPrefix(rest, "set ") {
					return fail(fmt.Errorf("entry set g(args) = e"))
				}
				gs, err := parseGhostSet(strings.TrimSpace(rest[4:]))
				if err != nil {
					return fail(err)
				}
				cur.EntrySets = append(cur.EntrySets, gs)
			case "exit":
				// exit set g(args) = e   (ghost code executed at every return, before the postconditions)
				if !strings.HasPrefix(rest, "set ") {
					return fail(fmt.Errorf("exit set g(args) = e"))
				}
				gs, err := parseGhostSet(strings.TrimSpace(rest[4:]))
				if err != nil {
					return fail(err)
				}
				cur.ExitSets = append(cur.ExitSets, gs)
			case "call":
				// call <pattern> requires [l] e | set g(args) = e | assume [l] e
				fields := strings.SplitN(rest, " ", 3)
				if len(fields) < 3 {
					return fail(fmt.Errorf("call <pattern> requires|set|assume ..."))
				}
				pat := fields[0]
				var cs *CallSpec
				for _, c := range cur.Calls {
					if c.Pattern == pat {
						cs = c
					}
				}
				if cs == nil {
					cs = &CallSpec{Pattern: pat}
					cur.Calls = append(cur.Calls, cs)
				}
				switch fields[1] {
				case "requires":
					c, err := mkClause(fields[2])
					if err != nil {
						return err
					}
					cs.Requires = append(cs.Requires, c)
				case "assume":
					c, err := mkClause(fields[2])
					if err != nil {
						return err
					}
					cs.Assumes = append(cs.Assumes, c)
					sp.Scan = append(sp.Scan, fmt.Sprintf("assume after call %s in %s: %s (%s)", pat, cur.Name, c.Src, where))
				case "set":
					gs, err := parseGhostSet(fields[2])
					if err != nil {
						return fail(err)
					}
					cs.Sets = append(cs.Sets, gs)
				default:
					return fail(fmt.Errorf("call: unknown %q", fields[1]))
				}
			default:
				return fail(fmt.Errorf("unknown clause %q", kw))
			}
		}
	}
	return nil
}

// qualify turns "T.f" / "pkg.T.f" / "pkg.F" written in a spec file into a
// name qualified by import path.
func (sp *Specs) qualify(name string, sf *SpecFile) string {
	// receiver forms: (*T).M, (T).M, T.M ; with optional pkg prefix inside
	if strings.HasPrefix(name, "(") {
		i := strings.Index(name, ")")
		recv := name[1:i]
		rest := name[i+1:]
		star := ""
		if strings.HasPrefix(recv, "*") {
			star = "*"
			recv = recv[1:]
		}
		pk := sf.PkgPath
		if j := strings.Index(recv, "."); j >= 0 {
			if ip, ok := sf.Imports[recv[:j]]; ok {
				pk = ip
				recv = recv[j+1:]
			}
		}
		return "(" + star + pk + "." + recv + ")" + rest
	}
	if j := strings.Index(name, "."); j >= 0 {
		if ip, ok := sf.Imports[name[:j]]; ok {
			return ip + "." + name[j+1:]
		}
	}
	return sf.PkgPath + "." + name
}

func (sp *Specs) funcKey(kind, name string, sf *SpecFile) string {
	q := sp.qualify(name, sf)
	switch kind {
	case "iface":
		return "iface:" + q
	case "callback":
		return "callback:" + name
	}
	return q
}

// parseDeclHead parses `name(a T, b U) R [= expr]`.
func parseDeclHead(s string) (name string, params []QVar, result *TypeExpr, def Expr, err error) {
	i := strings.Index(s, "(")
	if i < 0 {
		// constant ghost: `name T`
		parts := strings.SplitN(s, " ", 2)
		if len(parts) != 2 {
			return "", nil, nil, nil, fmt.Errorf("bad declaration %q", s)
		}
		name = parts[0]
		rt := parts[1]
		if j := strings.Index(rt, " = "); j >= 0 {
			def, err = ParseExpr(strings.TrimSpace(rt[j+3:]))
			if err != nil {
				return
			}
			rt = rt[:j]
		}
		result, err = ParseType(strings.TrimSpace(rt))
		return
	}
	name = strings.TrimSpace(s[:i])
	depth := 0
	j := i
	for ; j < len(s); j++ {
		if s[j] == '(' {
			depth++
		} else if s[j] == ')' {
			depth--
			if depth == 0 {
				break
			}
		}
	}
	if j >= len(s) {
		return "", nil, nil, nil, fmt.Errorf("unbalanced parens in %q", s)
	}
	ps := strings.TrimSpace(s[i+1 : j])
	if ps != "" {
		var pending []string
		for _, p := range splitTop(ps, ',') {
			p = strings.TrimSpace(p)
			k := strings.IndexAny(p, " \t")
			if k < 0 {
				pending = append(pending, p)
				continue
			}
			ty, e := ParseType(strings.TrimSpace(p[k:]))
			if e != nil {
				return "", nil, nil, nil, e
			}
			for _, n := range pending {
				params = append(params, QVar{n, ty})
			}
			pending = nil
			params = append(params, QVar{p[:k], ty})
		}
		if len(pending) > 0 {
			return "", nil, nil, nil, fmt.Errorf("parameter without type in %q", s)
		}
	}
	rest := strings.TrimSpace(s[j+1:])
	if k := strings.Index(rest, " = "); k >= 0 {
		def, err = ParseExpr(strings.TrimSpace(rest[k+3:]))
		if err != nil {
			return
		}
		rest = strings.TrimSpace(rest[:k])
	} else if strings.HasPrefix(rest, "= ") {
		def, err = ParseExpr(strings.TrimSpace(rest[2:]))
		if err != nil {
			return
		}
		rest = ""
	}
	if rest == "" {
		rest = "bool"
	}
	result, err = ParseType(rest)
	return
}

func splitTop(s string, sep byte) []string {
	var out []string
	depth := 0
	last := 0
	for i := 0; i < len(s); i++ {
		switch s[i] {
		case '(', '[', '{':
			depth++
		case ')', ']', '}':
			depth--
		default:
			if s[i] == sep && depth == 0 {
				out = append(out, s[last:i])
				last = i + 1
			}
		}
	}
	out = append(out, s[last:])
	return out
}

func parseGhostSet(src string) (*GhostSet, error) {
	i := strings.Index(src, " = ")
	if i < 0 {
		return nil, fmt.Errorf("set g(args) = e")
	}
	lhs, err := ParseExpr(strings.TrimSpace(src[:i]))
	if err != nil {
		return nil, err
	}
	rhs, err := ParseExpr(strings.TrimSpace(src[i+3:]))
	if err != nil {
		return nil, err
	}
	gs := &GhostSet{Val: rhs, Src: src}
	switch l := lhs.(type) {
	case *EIdent:
		gs.Name = l.Name
	case *ECall:
		id, ok := l.Fun.(*EIdent)
		if !ok {
			return nil, fmt.Errorf("bad ghost set lhs")
		}
		gs.Name = id.Name
		gs.Args = l.Args
	default:
		return nil, fmt.Errorf("bad ghost set lhs")
	}
	return gs, nil
}
