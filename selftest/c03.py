E = "extendedcopy.go"
mut("C03-4", "C03", E, """		if manifest.ArtifactType != "" {
			return manifest.ArtifactType, nil
		}
		return manifest.Config.MediaType, nil""", """		return manifest.Config.MediaType, nil""", ["fetchArtifactType/post:artifactType-else-config", "fetchArtifactType/binding"], "(canary) pre-fix fetchArtifactType ignores manifest.artifactType")
mut("C03-5", "C03", E, "	if err := dst.Tag(ctx, node, dstRef); err != nil {\n		return ocispec.Descriptor{}, newCopyError(\"Tag\", CopyErrorOriginDestination, err)\n	}\n\n	return node, nil", "	if err := dst.Tag(ctx, node, srcRef); err != nil {\n		return ocispec.Descriptor{}, newCopyError(\"Tag\", CopyErrorOriginDestination, err)\n	}\n\n	return node, nil", ["ExtendedCopy/post:tags-node"], "ExtendedCopy tags with the source reference")
mut("C03-6", "C03", E, "	if manifest.Annotations == nil {\n		// to differentiate with nil\n		return make(map[string]string), nil\n	}\n	return manifest.Annotations, nil", "	return manifest.Annotations, nil", ["fetchAnnotations/post:nonnil"], "fetched annotations may be nil (refetched forever)")
