P = "pack.go"
mut("C19-1", "C19", P, """	if artifactType != "" {
		if err := validateMediaType(artifactType); err != nil {
			return ocispec.Descriptor{}, fmt.Errorf("invalid artifactType format: %w", err)
		}
	}

	// prepare config""", """	// prepare config""", ["packManifestV1_1/post:bad-artifacttype-no-push"], "V1_1: artifact type no longer validated")
mut("C19-1b", "C19", P, """	if artifactType != "" {
		if err := validateMediaType(artifactType); err != nil {
			return ocispec.Descriptor{}, fmt.Errorf("invalid artifactType format: %w", err)
		}
	}

	// prepare config
	var emptyBlobExists bool
	var configDesc ocispec.Descriptor
	if opts.ConfigDescriptor != nil {
		if err := validateMediaType(opts.ConfigDescriptor.MediaType); err != nil {
			return ocispec.Descriptor{}, fmt.Errorf("invalid config mediaType format: %w", err)
		}
		configDesc = *opts.ConfigDescriptor
	} else {""", """	// prepare config
	var emptyBlobExists bool
	var configDesc ocispec.Descriptor
	if opts.ConfigDescriptor != nil {
		if err := validateMediaType(opts.ConfigDescriptor.MediaType); err != nil {
			return ocispec.Descriptor{}, fmt.Errorf("invalid config mediaType format: %w", err)
		}
		configDesc = *opts.ConfigDescriptor
	} else {
		if artifactType != "" {
			defer func() {}()
		}""", ["packManifestV1_1/post:bad-artifacttype-no-push"], "V1_1: artifact type validation dropped (variant)")
mut("C19-3", "C19", P, """		if !emptyBlobExists {
			if err := pushIfNotExist(ctx, pusher, layerDesc, layerData); err != nil {
				return ocispec.Descriptor{}, fmt.Errorf("failed to push layer: %w", err)
			}
		}""", """		if !emptyBlobExists && len(layerData) == 0 {
			if err := pushIfNotExist(ctx, pusher, layerDesc, layerData); err != nil {
				return ocispec.Descriptor{}, fmt.Errorf("failed to push layer: %w", err)
			}
		}""", ["packManifestV1_1/call:pushManifest#0/requires:invented-blobs-present"], "V1_1: empty layer never pushed when a config was supplied")
mut("C19-4", "C19", P, """	manifestDesc := content.NewDescriptorFromBytes(mediaType, manifestJSON)""", """	manifestDesc := content.NewDescriptorFromBytes(mediaType, manifestJSON[:len(manifestJSON)/2])""", ["pushManifest/call:.Push#0/requires:descriptor-of-pushed-bytes"], "descriptor computed from other bytes than pushed")
mut("C19-5", "C19", P, """	copied := make(map[string]string, len(annotations)+1)
	maps.Copy(copied, annotations)
""", """	copied := annotations
	if copied == nil {
		copied = make(map[string]string, 1)
		maps.Copy(copied, annotations)
	}
""", ["ensureAnnotationCreated/"], "created annotation written into the caller's map")
mut("C19-6", "C19", P, "		Subject:      opts.Subject,\n		ArtifactType: artifactType,", "		ArtifactType: artifactType,", ["packManifestV1_1/call:pushManifest#0/requires:manifest-fields"], "V1_1 forgets the subject")
mut("C19-7", "C19", P, """	if opts.Subject != nil {
		return ocispec.Descriptor{}, fmt.Errorf("subject is not supported for manifest version %v: %w", PackManifestVersion1_0, errdef.ErrUnsupported)
	}
""", "", ["packManifestV1_0/post:subject-rejected-no-push"], "V1_0 silently drops the subject")
mut("C19-8", "C19", P, """	if exists {
			return nil
		}
	}
""", """	if exists {
			return nil
		}
		return nil
	}
""", ["pushIfNotExist/post:nil-means-present"], "blob assumed present whenever the target can be queried")
