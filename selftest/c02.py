CP = "copy.go"
mut("C02-1", "C02", CP, """			for _, node := range successors {
				done, committed := tracker.TryCommit(node)
				if committed {
					return fmt.Errorf("%s: %s: successor not committed", desc.Digest, node.Digest)
				}
				select {
				case <-done:
				case <-ctx.Done():
					return ctx.Err()
				}
			}
""", "", ["copyGraph$1/call:copyNode", "copyGraph$1/call:mountOrCopyNode", "copyGraph$1/binding"], "parent pushed without waiting for its successors")
mut("C02-2", "C02", CP, """				select {
				case <-done:
				case <-ctx.Done():
					return ctx.Err()
				}
			}
""", """				select {
				case <-done:
				case <-ctx.Done():
					return ctx.Err()
				}
				break
			}
""", ["copyGraph$1/call:", "copyGraph$1/inv"], "wait loop stops after the first successor")
mut("C02-3", "C02", CP, """			if err == nil {
				// mark the content as done on success
				close(done)
			}
""", """			close(done)
""", ["copyGraph$1/call:close"], "done channel closed also on failure")
mut("C02-4", "C02", CP, """				case <-ctx.Done():
					return ctx.Err()
				}
			}
			if err := region.Start(); err != nil {""", """				case <-ctx.Done():
					return nil
				}
			}
			if err := region.Start(); err != nil {""", ["copyGraph$1/post:cancel-surfaces", "copyGraph$1/call:close"], "cancellation while waiting reported as success")
mut("C02-5", "C02", CP, "			region.End()\n			if err := syncutil.Go(ctx, limiter, fn, successors...); err != nil {", "			if err := syncutil.Go(ctx, limiter, fn, successors...); err != nil {", ["copyGraph$1/call:Go#0/requires:permit-released-before-dispatch"], "children dispatched while holding the permit")
mut("C02-6", "C02", CP, """		exists, err := dst.Exists(ctx, desc)
		if err != nil {
			return newCopyError("Exists", CopyErrorOriginDestination, err)
		}
		if exists {""", """		exists, _ := dst.Exists(ctx, desc)
		if exists {""", ["copyGraph$1/post:error-surfaces", "copyGraph$1/call:close"], "existence check error swallowed")
mut("C02-7", "C02", CP, "	if err != nil && !errors.Is(err, errdef.ErrAlreadyExists) {\n		return newCopyError(\"Push\", CopyErrorOriginDestination, err)\n	}\n	return nil\n}\n\n// copyNode", "	if err != nil && errors.Is(err, errdef.ErrAlreadyExists) {\n		return newCopyError(\"Push\", CopyErrorOriginDestination, err)\n	}\n	return nil\n}\n\n// copyNode", ["doCopyNode/post"], "push errors inverted")
