G = "internal/graph/memory.go"
mut("C07-1", "C07", G, "			delete(m.predecessors, successorKey)\n", "", ["Remove/inv-step", "Remove/post:ri"], "Remove keeps an empty predecessor entry")
mut("C07-2", "C07", G, "	delete(m.successors, nodeKey)\n", "", ["Remove/post:ri"], "Remove leaves the successor entry of the removed node")
mut("C07-3", "C07", G, "		predecessorSet.Add(nodeKey)\n", "		if len(successors) > 1 {\n			predecessorSet.Add(nodeKey)\n		}\n", ["index/inv-step", "index/post"], "index skips the back link for single-successor nodes")
mut("C07-4", "C07", G, "	set, exists := m.predecessors[key]\n", "	set, exists := m.successors[key]\n", ["Predecessors/"], "Predecessors reads the successor map")
mut("C07-5", "C07", G, "		predecessorEntry.Delete(nodeKey)\n", "		if len(predecessorEntry) > 1 {\n			predecessorEntry.Delete(nodeKey)\n		}\n", ["Remove/"], "Remove keeps the last back link")
mut("C07-6", "C07", G, "		res = append(res, m.nodes[k])\n", "		if len(res) < 2 {\n			res = append(res, m.nodes[k])\n		}\n", ["Predecessors/"], "Predecessors truncates to two results")
mut("C07-7", "C07", G, "	delete(m.nodes, nodeKey)\n	return danglings", "	return danglings", ["Remove/post"], "Remove keeps the node entry")
mut("C07-H2", "C07", G, "	delete(m.successors, nodeKey)\n	delete(m.nodes, nodeKey)\n", "	delete(m.nodes, nodeKey)\n	delete(m.successors, nodeKey)\n", [], "harmless: swap the two deletes", harmless=True)
