O = "content/oci/oci.go"
mut("C10-1", "C10", O, """	danglings := s.graph.Remove(target)
	if untagged && s.AutoSaveIndex {
		err := s.saveIndex()
		if err != nil {
			return nil, err
		}
	}
	if err := s.storage.Delete(ctx, target); err != nil {
		return nil, err
	}
	return danglings, nil""", """	danglings := s.graph.Remove(target)
	if err := s.storage.Delete(ctx, target); err != nil {
		return nil, err
	}
	if untagged && s.AutoSaveIndex {
		err := s.saveIndex()
		if err != nil {
			return nil, err
		}
	}
	return danglings, nil""", ["delete/call:Delete#0/requires:index-saved-before-blob-removed"], "blob removed before the index without it is saved")
