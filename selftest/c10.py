O = "content/oci/oci.go"
mut("C10-1", "C10", O, """	danglings := s.graph.Remove(target)
	if untagged && s.AutoSaveIndex {
		err := s.saveIndex()
		if err != nil {
			return nil, err
		}
	}
	if err := s.storage.Delete(ctx, target); err != nil {
		return nil, err
	}
	return danglings, nil""", """	danglings := s.graph.Remove(target)
	if err := s.storage.Delete(ctx, target); err != nil {
		return nil, err
	}
	if untagged && s.AutoSaveIndex {
		err := s.saveIndex()
		if err != nil {
			return nil, err
		}
	}
	return danglings, nil""", ["delete/call:Delete#0/requires:index-saved-before-blob-removed"], "blob removed before the index without it is saved")
mut("C10-3", "C10", O, """	tmpPath := s.indexPath + ".tmp." + strconv.Itoa(os.Getpid()) + "." + strconv.FormatUint(atomic.AddUint64(&indexTempSeq, 1), 10)
	if err := os.WriteFile(tmpPath, indexJSON, 0666); err != nil {
		os.Remove(tmpPath)
		return err
	}
	if info, err := os.Stat(s.indexPath); err == nil {
		// keep the permission bits of the file being replaced
		os.Chmod(tmpPath, info.Mode().Perm())
	}
	if err := os.Rename(tmpPath, s.indexPath); err != nil {
		os.Remove(tmpPath)
		return err
	}
	return nil
}
""", """	_ = strconv.Itoa
	_ = atomic.AddUint64
	return os.WriteFile(s.indexPath, indexJSON, 0666)
}
""", ["writeIndexFile/call:WriteFile#0/requires:index-replaced-by-rename-only"], "(canary) pre-fix writeIndexFile: index.json truncated in place")
ST = "content/oci/storage.go"
mut("C10-2", "C10", ST, """	ingest, err := s.ingest(expected, content)
	if err != nil {
		return err
	}
""", """	ingest, _ := s.ingest(expected, content)
""", ["Push/call:Rename#0/requires:publish-only-verified-ingest", "Push/post:nil-means-verified"], "unverified ingest file renamed into blobs")
mut("C10-4", "C10", ST, "	fp, err := os.CreateTemp(s.ingestRoot, expected.Digest.Encoded()+\"_*\")", "	fp, err := os.CreateTemp(filepath.Join(s.root, \"blobs\"), expected.Digest.Encoded()+\"_*\")", ["ingest/call:CreateTemp#0/requires:temp-file-outside-blobs"], "partial ingest file created under blobs")
mut("C10-5", "C10", ST, """	if err := ioutil.CopyBuffer(fp, content, *buf, expected); err != nil {
		return "", fmt.Errorf("failed to ingest: %w", err)
	}
""", """	if err := ioutil.CopyBuffer(fp, content, *buf, expected); err != nil && false {
		return "", fmt.Errorf("failed to ingest: %w", err)
	}
""", ["ingest/post:nil-means-verified"], "verification failure of the ingest ignored")
