A = "registry/remote/auth/client.go"
mut("C16-1", "C16", A, "req, err := http.NewRequestWithContext(ctx, http.MethodGet, realm, nil)", "req, err := http.NewRequestWithContext(ctx, http.MethodGet, service, nil)",
    ["fetchDistributionToken/call:"], "distribution token request (with basic auth) goes to the service string instead of the realm")
mut("C16-2", "C16", A, "\t\treq.SetBasicAuth(username, password)\n", "\t\treq.SetBasicAuth(password, username)\n",
    ["fetchDistributionToken/call:"], "username and password swapped in the token request")
mut("C16-3", "C16", A, "\t\tform.Set(\"refresh_token\", cred.RefreshToken)\n", "\t\tform.Set(\"refresh_token\", cred.Password)\n",
    ["fetchOAuth2Token/call:"], "password sent as the refresh token")
mut("C16-4", "C16", A, "\treq, err := http.NewRequestWithContext(ctx, http.MethodPost, realm, body)", "\treq, err := http.NewRequestWithContext(ctx, http.MethodPost, \"https://\"+service, body)",
    ["fetchOAuth2Token/call:"], "oauth2 token request goes to the service instead of the realm")
mut("C16-5", "C16", A, "\tif cred == EmptyCredential || (cred.RefreshToken == \"\" && !c.ForceAttemptOAuth2) {", "\tif cred == EmptyCredential || cred.RefreshToken == \"\" {",
    ["fetchBearerToken/call:"], "ForceAttemptOAuth2 ignored")
mut("C16-H1", "C16", A, "\tif service != \"\" {\n\t\tq.Set(\"service\", service)\n\t}\n\tfor _, scope := range scopes {\n\t\tq.Add(\"scope\", scope)\n\t}\n",
    "\tfor _, scope := range scopes {\n\t\tq.Add(\"scope\", scope)\n\t}\n\tif service != \"\" {\n\t\tq.Set(\"service\", service)\n\t}\n", [], "harmless: query parameters set in the other order", harmless=True)
