R = "content/reader.go"
mut("C05-1", "C05", R, """	if err := ensureEOF(vr.base.R); err != nil {
		vr.err = err
		return vr.err
	}
""", "", ["Verify/post:nil-means-exact", "Verify/post:wf"], "Verify skips the EOF check (trailing data accepted)")
mut("C05-2", "C05", R, "if err == io.EOF && vr.base.N > 0 {", "if err == io.EOF && vr.base.N > 1 {", ["Read/post:wf", "Read/post:eof-means-complete"], "short stream one byte early reported as clean EOF")
mut("C05-3", "C05", R, """	if !vr.verifier.Verified() {
		vr.err = ErrMismatchedDigest
		return vr.err
	}
""", """	if !vr.verifier.Verified() {
		vr.err = ErrMismatchedDigest
	}
""", ["Verify/post:nil-means-exact", "Verify/post:wf"], "digest mismatch recorded but nil returned")
mut("C05-4", "C05", "internal/cas/memory.go", """	value, err := contentpkg.ReadAll(content, expected)
	if err != nil {
		return err
	}
""", """	value, _ := contentpkg.ReadAll(content, expected)
""", ["Push/call:LoadOrStore#0/requires:verified-before-store", "Push/post:nil-means-verified"], "store content whose verification failed")
mut("C05-5", "C05", "internal/ioutil/io.go", "	return vr.Verify()\n", "	vr.Verify()\n	return nil\n", ["CopyBuffer/post:nil-means-verified"], "CopyBuffer ignores the verification result")
mut("C05-6", "C05", R, """		if vr.base.N > 0 {
			return errEarlyVerify
		}
""", "", ["Verify/post:early", "Verify/post:nil-means-exact", "Verify/post:wf"], "Verify before the whole content was read succeeds")
mut("C05-7", "C05", R, """	if desc.Size < 0 {
		return &VerifyReader{
			err: ErrInvalidDescriptorSize,
		}
	}
""", "", ["NewVerifyReader/post:wf-size-nonnegative"], "(canary) pre-fix NewVerifyReader accepting negative sizes")
mut("C05-8", "C05", R, """	if vr.verified {
		return nil
	}
	if vr.err == nil {""", """	if vr.verified || vr.err == io.EOF {
		return nil
	}
	if vr.err == nil {""", ["Verify/post:nil-means-exact"], "Verify treats a clean EOF as verified")
mut("C05-H1", "C05", R, """	vr.verified = true
	vr.err = io.EOF
""", """	vr.err = io.EOF
	vr.verified = true
""", [], "harmless: swap two independent stores", harmless=True)
