F = "registry/remote/retry/client.go"
mut("C17-1", "C17", F, "\t\tattempt++\n", "", ["RoundTrip/inv-step:loop0:count", "RoundTrip/inv-step:loop0:bounded"], "drop attempt++ (unbounded retries)")
mut("C17-2", "C17", F, """			if req.GetBody == nil {
				// body can't be rewound, so we can't retry
				return resp, respErr
			}
			body, err := req.GetBody()
			if err != nil {
				// failed to rewind the body, so we can't retry
				return resp, respErr
			}
			req.Body = body
""", """			if req.GetBody != nil {
				body, err := req.GetBody()
				if err != nil {
					return resp, respErr
				}
				req.Body = body
			}
""", ["RoundTrip/inv-step:loop0:fresh", "RoundTrip/inv-step:loop0:one-shot"], "re-send a one-shot body when GetBody is nil")
mut("C17-3", "C17", F, "\t\t\ttimer.Stop()\n\t\t\treturn nil, ctx.Err()", "\t\t\ttimer.Stop()\n\t\t\tcontinue", ["RoundTrip/inv-step:loop0:not-cancelled"], "keep retrying after cancellation")
mut("C17-4", "C17", F, "\t\t\treq.Body = body\n", "\t\t\t_ = body\n", ["RoundTrip/inv-step:loop0:fresh"], "re-send with the consumed body")
mut("C17-5", "C17", "registry/remote/retry/policy.go", "\tif backoff > p.MaxWait {\n\t\tbackoff = p.MaxWait\n\t}\n", "\tif backoff > p.MaxWait {\n\t\tbackoff = p.MinWait\n\t}\n", ["Retry/post:clamp"], "harmless-looking clamp edit (still within bounds)", harmless=True)
mut("C17-6", "C17", "registry/remote/retry/policy.go", "\tif backoff < p.MinWait {\n\t\tbackoff = p.MinWait\n\t}\n\tif backoff > p.MaxWait {\n\t\tbackoff = p.MaxWait\n\t}\n", "\tif backoff > p.MaxWait {\n\t\tbackoff = p.MaxWait\n\t}\n\tif backoff < p.MinWait/2 {\n\t\tbackoff = p.MinWait\n\t}\n", ["Retry/post:clamp"], "clamp lower bound halved")
mut("C17-7", "C17", "registry/remote/retry/policy.go", "\tif attempt >= p.MaxRetry {", "\tif attempt > p.MaxRetry {", ["Retry/post:maxretry"], "off-by-one in the retry budget")
mut("C17-8", "C17", "registry/remote/retry/policy.go", """		wait := time.Duration(temp * (1 - jitter))
		// rand.Int64N panics unless its argument is positive
		if n := int64(2 * jitter * temp); n > 0 {
			wait += time.Duration(rand.Int64N(n))
		}
		return wait
""", """		return time.Duration(temp*(1-jitter)) + time.Duration(rand.Int64N(int64(2*jitter*temp)))
""", ["ExponentialBackoff$1/pre:Int64N#0:n-positive"], "(canary) pre-fix ExponentialBackoff: rand.Int64N with non-positive bound")
# pure renames of locals/parameters referenced by contracts (resolved through /verif/baseline_src)
mut("C17-H2", "C17", "registry/remote/retry/client.go",
    ["\tpolicy := t.policy()\n\tattempt := 0\n", "policy.Retry(attempt, resp, respErr)", "\t\tattempt++\n"],
    ["\tpol := t.policy()\n\ttries := 0\n", "pol.Retry(tries, resp, respErr)", "\t\ttries++\n"],
    [], "harmless: locals of RoundTrip renamed (contract names attempt, policy)", harmless=True)
mut("C17-H3", "C17", "registry/remote/retry/client.go",
    ["\tpolicy := t.policy()\n\tattempt := 0\n", "policy.Retry(attempt, resp, respErr)", "\t\tattempt++\n"],
    ["\tpol := t.policy()\n\ttries := 1\n", "pol.Retry(tries, resp, respErr)", "\t\ttries++\n"],
    ["RoundTrip/"], "rename plus a real change (attempt starts at 1): no rename map, contract must fail", harmless=False)
