RM = "internal/resolver/memory.go"
mut("C09-6", "C09", RM, """	// a reference that is being moved no longer tags its previous target
	if old, ok := m.index[reference]; ok && old.Digest != desc.Digest {
		oldTagSet := m.tags[old.Digest]
		oldTagSet.Delete(reference)
		if len(oldTagSet) == 0 {
			delete(m.tags, old.Digest)
		}
	}
""", "", ["Tag/post:tags-consistent"], "(canary) pre-fix resolver.Memory.Tag: stale tag-set entry on re-tag")
mut("C09-8", "C09", RM, """	if len(tagSet) == 0 {
		delete(m.tags, desc.Digest)
	}
}""", "}", ["Untag/post:tags-consistent"], "Untag keeps an empty tag set")
mut("C09-9", "C09", RM, "	delete(m.index, reference)\n	tagSet := m.tags[desc.Digest]\n	tagSet.Delete(reference)", "	delete(m.index, reference)\n	tagSet := m.tags[desc.Digest]", ["Untag/post:tags-consistent"], "Untag forgets the tag set")
mut("C09-10", "C09", RM, "	tagSet := m.tags[desc.Digest]\n	return maps.Clone(tagSet)", "	tagSet := m.tags[desc.Digest]\n	return tagSet", [], "harmless for the view (alias instead of clone)", harmless=True)
O = "content/oci/oci.go"
mut("C09-7", "C09", O, """			for _, r := range referrers {
				if !s.isTagged(r) {
					deleteQueue = append(deleteQueue, r)
				}
			}
""", "			deleteQueue = append(deleteQueue, referrers...)\n", ["Delete/call:append#0/requires:enqueue-untagged-only"], "(canary) pre-fix Delete: tagged referrers are queued for deletion")
mut("C09-1", "C09", O, "		if content.Equal(desc, target) {\n			s.tagResolver.Untag(reference)", "		if content.Equal(desc, target) || desc.Digest == target.Digest {\n			s.tagResolver.Untag(reference)", ["delete/inv-step:loop0:untag-only-target", "delete/post:untag-only-target"], "delete untags every reference with the same digest")
mut("C09-2", "C09", O, "				if !s.isTagged(d) {\n					deleteQueue = append(deleteQueue, d)\n				}", "				deleteQueue = append(deleteQueue, d)", ["Delete/call:append"], "danglings queued without the tag test")
mut("C09-4", "C09", O, "	if tagSet.Contains(string(desc.Digest)) {\n		return len(tagSet) > 1\n	}\n	return len(tagSet) > 0", "	return len(tagSet) > 0", ["isTagged/post:exact"], "isTagged counts the digest self-reference as a tag")
mut("C09-3", "C09", O, "		danglings, err := s.delete(ctx, head)\n		if err != nil {\n			return err\n		}", "		danglings, _ := s.delete(ctx, head)", ["Delete/decreases:loop0"], "Delete ignores delete errors (no progress guaranteed)")
mut("C09-5", "C09", O, """			var err error
			subject, err = manifestutil.Subject(ctx, s.storage, *subject)
			if err != nil {
				if errors.Is(err, errdef.ErrNotFound) {
					// the chain ends at a subject that is not in the store
					break
				}
				return err
			}
""", """			subject, err := manifestutil.Subject(ctx, s.storage, *subject)
			if err != nil {
				return err
			}
""", ["gcIndex/decreases:loop2"], "(canary) pre-fix gcIndex: shadowed subject, GC hangs")
mut("C09-11", "C09", O, "			if !reachableNodes.Contains(blobDigest) {\n", "			if reachableNodes.Contains(blobDigest) {\n", ["GC/call:Remove#0/requires:remove-only-unreachable"], "GC removes the reachable blobs")
mut("C09-12", "C09", O, "		if !isKnownAlgorithm(alg) {\n			continue\n		}\n", "", ["GC/call:Remove#0/requires:known-algorithm-only"], "GC descends into unknown algorithm directories")
mut("C09-13", "C09", "internal/graph/memory.go", "		s.Add(desc.Digest)\n", "		if len(s) == 0 {\n			s.Add(desc.Digest)\n		}\n", ["DigestSet/"], "DigestSet reports only one digest")
