RM = "internal/resolver/memory.go"
mut("C09-6", "C09", RM, """	// a reference that is being moved no longer tags its previous target
	if old, ok := m.index[reference]; ok && old.Digest != desc.Digest {
		oldTagSet := m.tags[old.Digest]
		oldTagSet.Delete(reference)
		if len(oldTagSet) == 0 {
			delete(m.tags, old.Digest)
		}
	}
""", "", ["Tag/post:tags-consistent"], "(canary) pre-fix resolver.Memory.Tag: stale tag-set entry on re-tag")
mut("C09-8", "C09", RM, """	if len(tagSet) == 0 {
		delete(m.tags, desc.Digest)
	}
}""", "}", ["Untag/post:tags-consistent"], "Untag keeps an empty tag set")
mut("C09-9", "C09", RM, "	delete(m.index, reference)\n	tagSet := m.tags[desc.Digest]\n	tagSet.Delete(reference)", "	delete(m.index, reference)\n	tagSet := m.tags[desc.Digest]", ["Untag/post:tags-consistent"], "Untag forgets the tag set")
mut("C09-10", "C09", RM, "	tagSet := m.tags[desc.Digest]\n	return maps.Clone(tagSet)", "	tagSet := m.tags[desc.Digest]\n	return tagSet", [], "harmless for the view (alias instead of clone)", harmless=True)
