U = "content/file/utils.go"
F = "content/file/file.go"
mut("C11-g", "C11", U, """				if !filepath.IsAbs(target) {
					// link the file that ensureLinkPath validated, not a file
					// relative to the current directory of the process
					target = filepath.Join(filepath.Dir(filePath), target)
				}
				err = os.Link(target, filePath)""", """				err = os.Link(target, filePath)""", ["extractTarDirectory/call:Link#0/requires:link-source-inside-base"], "(canary) pre-fix: hard-link source resolved against the process's current directory")
mut("C11-g2", "C11", U, """			if err = removeSymlink(filePath); err == nil {
				err = writeFile(filePath, tr, header.FileInfo().Mode(), buf)
			}""", """			err = writeFile(filePath, tr, header.FileInfo().Mode(), buf)""", ["extractTarDirectory/call:writeFile#0/requires:not-written-through-a-symlink"], "(canary) pre-fix: regular entry written through an existing symlink")
mut("C11-1", "C11", U, """			if !os.IsNotExist(err) {
				return "", err
			}
		} else if info.Mode()&os.ModeSymlink != 0 {""", """			if !os.IsNotExist(err) {
				return "", err
			}
			break
		} else if info.Mode()&os.ModeSymlink != 0 {""", ["resolveRelToBase/"], "parent walk stops at the first missing directory (symlink higher up not seen)")
mut("C11-2", "C11", U, """		} else if info.Mode()&os.ModeSymlink != 0 {
			return "", fmt.Errorf("no symbolic link allowed between %q and %q", baseRel, target)
		}""", """		} else if info.Mode()&os.ModeSymlink != 0 && false {
			return "", fmt.Errorf("no symbolic link allowed between %q and %q", baseRel, target)
		}""", ["resolveRelToBase/inv-step:loop0:every-proper-parent-checked"], "symlink parents are accepted")
mut("C11-3", "C11", U, """	if cleanPath == ".." || strings.HasPrefix(cleanPath, "../") {""", """	if strings.HasPrefix(cleanPath, "../") {""", ["resolveRelToBase/"], "the base's parent itself ('..') is accepted")
mut("C11-4", "C11", U, """		path = filepath.Join(filepath.Dir(link), target)
	}""", """		path = filepath.Join(link, target)
	}""", ["ensureLinkPath/call:resolveRelToBase#0/requires:link-target-checked-as-the-OS-resolves-it"], "link target checked relative to the link itself instead of its directory")
mut("C11-5", "C11", U, """		filePath := filepath.Join(dirPath, filePathRel)""", """		filePath := filepath.Join(dirPath, filename)
		_ = filePathRel""", ["extractTarDirectory/"], "entries written at the raw header name")
mut("C11-6", "C11", U, """	if info, err := os.Lstat(path); err == nil && info.Mode()&os.ModeSymlink != 0 {
		return os.Remove(path)
	}
	return nil""", """	if info, err := os.Lstat(path); err == nil && info.Mode()&os.ModeSymlink != 0 {
		os.Remove(path)
	}
	return nil""", ["removeSymlink/post:link-at-path-removed-or-error"], "failed removal of the symlink ignored (then written through)")
mut("C11-7", "C11", U, """			target, err = ensureLinkPath(dirPath, dirName, filePath, header.Linkname)
			if err != nil {
				return err
			}
			if err = os.Symlink(target, filePath); err != nil {""", """			target, err = ensureLinkPath(dirPath, dirName, filePath, header.Linkname)
			if err = os.Symlink(header.Linkname, filePath); err != nil {""", ["extractTarDirectory/call:Symlink#0/requires:path-sanitised"], "symlink created even when its target was refused")
mut("C11-8", "C11", F, """	if !s.AllowPathTraversalOnWrite {""", """	if !s.AllowPathTraversalOnWrite && !filepath.IsAbs(name) {""", ["resolveWritePath/post:lexically-inside-working-dir"], "absolute names skip the containment check")
