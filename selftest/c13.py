RP = "registry/remote/repository.go"
SK = "internal/httputil/seek.go"
mut("C13-1", "C13", RP, """		if size := resp.ContentLength; size != -1 && size != target.Size {
			return nil, fmt.Errorf("%s %q: mismatch Content-Length", resp.Request.Method, resp.Request.URL)
		}
		if err := verifyContentDigest(resp, target.Digest); err != nil {
			return nil, err
		}

		// check server range request capability.""", """		if err := verifyContentDigest(resp, target.Digest); err != nil {
			return nil, err
		}

		// check server range request capability.""", ["blobStore).Fetch/post:checked-length"], "blob fetch no longer compares Content-Length")
mut("C13-2", "C13", RP, """	if len(refDigest) > 0 && refDigest != contentDigest {""", """	if len(refDigest) > 0 && refDigest != contentDigest && len(serverHeaderDigest) == 0 {""", ["generateDescriptor/post:table-reference-digest"], "server digest wins over the requested digest")
mut("C13-3", "C13", RP, """	contentDigest, err := digest.Parse(digestStr)
	if err != nil {
		return fmt.Errorf(
			"%s %q: invalid response header: `%s: %s`",
			resp.Request.Method, resp.Request.URL,
			headerDockerContentDigest, digestStr,
		)
	}
""", """	contentDigest, err := digest.Parse(digestStr)
	if err != nil {
		return nil
	}
""", ["verifyContentDigest/post:exact"], "unparsable digest header accepted")
mut("C13-4a", "C13", SK, 'fmt.Sprintf("bytes=%d-%d", offset, rsc.size-1)', 'fmt.Sprintf("bytes=%d-%d", offset, rsc.size)', ["Seek/call:Sprintf#0/requires:range-header-bounds"], "Range end off by one")
mut("C13-4b", "C13", SK, "	if resp.StatusCode != http.StatusPartialContent {", "	if resp.StatusCode != http.StatusPartialContent && resp.StatusCode != http.StatusOK {", ["Seek/post:partial-content-only"], "200 accepted for a Range request")
mut("C13-4c", "C13", SK, "	if offset >= rsc.size {", "	if offset > rsc.size {", ["requires:request-only-inside-content"], "request sent for a position at the end")
mut("C13-5", "C13", "registry/remote/manifest.go", "	for _, mediaType := range manifestMediaTypes {", "	for _, mediaType := range manifestMediaTypes[:len(manifestMediaTypes)-1] {", ["isManifest/"], "last configured manifest type ignored")
mut("C13-6", "C13", RP, "	if isManifest(r.ManifestMediaTypes, desc) {\n		return r.Manifests()\n	}\n	return r.Blobs()", "	if isManifest(r.ManifestMediaTypes, desc) {\n		return r.Blobs()\n	}\n	return r.Manifests()", ["blobStore/post:routes-by-isManifest"], "manifests routed to the blob endpoint")
mut("C13-7", "C13", RP, """	req.Header.Set("Accept", target.MediaType)

	resp, err := s.repo.do(req)
	if err != nil {
		return nil, err
	}
	defer func() {
		if err != nil {
			resp.Body.Close()
		}
	}()
""", """	req.Header.Set("Accept", target.MediaType)

	resp, err := s.repo.do(req)
	if err != nil {
		return nil, err
	}
""", ["manifestStore).Fetch/post:body-closed-on-error"], "manifest fetch leaks the body on error")
mut("C13-8", "C13", RP, """		if httpMethod == http.MethodHead {
			if len(refDigest) == 0 {""", """		if httpMethod == http.MethodHead {
			if len(refDigest) == 0 && false {""", ["generateDescriptor/post:table-head-needs-digest"], "HEAD without digest header and without digest reference accepted")
mut("C13-9", "C13", SK, "	rsc.offset += int64(n)\n", "	rsc.offset = int64(n)\n", ["Read/post:offset-advances"], "seek reader forgets its offset")
