L = "internal/syncutil/limit.go"
CP = "copy.go"
mut("C04-1", "C04", L, "	if lr == nil || lr.ended {\n		return\n	}\n	lr.limiter.Release(1)", "	if lr == nil {\n		return\n	}\n	lr.limiter.Release(1)", ["End/post:no-double-release"], "End releases twice")
mut("C04-1b", "C04", L, "	if lr == nil || !lr.ended {\n		return nil\n	}\n	if err := lr.limiter.Acquire(lr.ctx, 1); err != nil {", "	if lr == nil {\n		return nil\n	}\n	if err := lr.limiter.Acquire(lr.ctx, 1); err != nil {", ["Start/post:no-acquire-when-held"], "Start acquires a second permit")
mut("C04-3", "C04", CP, "			if err == SkipNode {\n				return nil\n			}\n			return err", "			if err != SkipNode {\n				return err\n			}", ["copyNode/"], "SkipNode falls through to the copy and PostCopy")
mut("C04-5", "C04", CP, """		exists, err = proxy.Cache.Exists(ctx, desc)
		if err != nil {
			return fmt.Errorf("failed to check cache existence: %s: %w", desc.Digest, err)
		}
		if exists {
			return copyNode(ctx, proxy.Cache, dst, desc, opts)
		}
		return mountOrCopyNode(ctx, src, dst, desc, opts)""", """		exists, err = proxy.Cache.Exists(ctx, desc)
		if err != nil {
			return fmt.Errorf("failed to check cache existence: %s: %w", desc.Digest, err)
		}
		region.End()
		if exists {
			return copyNode(ctx, proxy.Cache, dst, desc, opts)
		}
		return mountOrCopyNode(ctx, src, dst, desc, opts)""", ["copyGraph$1/call:copyNode", "copyGraph$1/call:mountOrCopyNode", "requires:holds-permit"], "copy performed after giving the permit back")
mut("C04-6", "C04", CP, "	if opts.PostCopy != nil {\n		return opts.PostCopy(ctx, desc)\n	}\n	return nil\n}\n\n// copyCachedNodeWithReference", "	if opts.PostCopy != nil {\n		opts.PostCopy(ctx, desc)\n	}\n	return nil\n}\n\n// copyCachedNodeWithReference", ["copyNode/post:callback-error-identity"], "PostCopy error dropped")
mut("C04-7", "C04", "internal/status/tracker.go", "	return status.(chan struct{}), !exists", "	return status.(chan struct{}), !exists || true", ["TryCommit/post:single-owner"], "every caller becomes owner")
mut("C04-m1", "C04", "copy.go", "		if !mountFailed {\n			// mounted, success", "		if mountFailed {\n			// mounted, success", ["mountOrCopyNode/call:opts.OnMounted#0/requires:mounted-hook-only-when-no-content-was-requested"], "OnMounted reported for blobs that had to be copied")
mut("C04-m2", "C04", "copy.go", "			if i < len(sourceRepositories)-1 {\n				// If this is not the last one", "			if i < 0 {\n				// If this is not the last one", ["mountOrCopyNode$1/"], "every failed mount source triggers PreCopy and a fetch (several PreCopy per node)")
mut("C04-m3", "C04", "copy.go", "		if err := mounter.Mount(ctx, desc, sourceRepository, getContent); err != nil && !errors.Is(err, skipSource) {", "		if err := mounter.Mount(ctx, desc, sourceRepositories[0]+sourceRepository[:0], getContent); err != nil && !errors.Is(err, skipSource) {", ["mountOrCopyNode/call:.Mount#0/requires:mount-of-this-blob-from-the-listed-repository"], "always mounts from the first source repository")
