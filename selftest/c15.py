RP = "registry/remote/repository.go"
U = "registry/remote/utils.go"
RF = "registry/remote/referrers.go"
mut("C15-1", "C15", RP, "		url, err = r.tags(ctx, last, fn, url)\n		// clear `last` for subsequent pages\n		last = \"\"\n", "		url, err = r.tags(ctx, last, fn, url)\n", ["Tags/call:tags#0/requires:last-only-on-first-page", "Tags/inv-step:loop0:chain"], "`last` re-sent on every page")
mut("C15-2", "C15", RP, "	lr := limitReader(resp.Body, r.MaxMetadataBytes)\n	if err := json.NewDecoder(lr).Decode(&page); err != nil {", "	if err := json.NewDecoder(resp.Body).Decode(&page); err != nil {", ["tags/call:NewDecoder#0/requires:limited-before-decode"], "tag page decoded from the unlimited body")
mut("C15-3", "C15", U, "	if desc.Size > n {", "	if desc.Size >= n {", ["limitSize/post:exact"], "limitSize off by one")
mut("C15-4", "C15", U, "		link = link[1:i]", "		link = link[1 : i+1]", ["parseLink/call:Parse#0/requires:target-between-brackets"], "link target includes the closing bracket")
mut("C15-5", "C15", RP, "	if err := fn(page.Tags); err != nil {\n		return \"\", err\n	}\n\n	return parseLink(resp)", "	if err := fn(page.Tags); err != nil {\n		return \"\", nil\n	}\n\n	return parseLink(resp)", ["tags/post:callback-error-identity"], "callback error swallowed")
mut("C15-6", "C15", RP, "	if err != errNoLink {\n		return err\n	}\n	return nil\n}\n\n// tags returns", "	if err != errNoLink {\n		return nil\n	}\n	return nil\n}\n\n// tags returns", ["Tags/post:nil-iff-nolink"], "listing errors reported as success")
mut("C15-7", "C15", RF, "		if ref.ArtifactType == artifactType {\n			if i != j {", "		if ref.ArtifactType == artifactType || i == 0 {\n			if i != j {", ["filterReferrers/inv-step:loop0:kept"], "first referrer kept regardless of type")
mut("C15-8", "C15", RF, "	if applied == \"\" || requested == \"\" {\n		return false\n	}", "	if applied == \"\" {\n		return false\n	}", ["isReferrersFilterApplied/post:exact"], "empty requested filter treated as applied when listed")
mut("C15-9", "C15", RP, "		if last != \"\" {\n			q.Set(\"last\", last)\n		}", "		q.Set(\"last\", last)", ["tags/call:do#0/requires:query-parameters"], "`last` query parameter sent even when empty")
mut("C15-10", "C15", U, "	if n <= 0 {\n		n = defaultMaxMetadataBytes\n	}\n	return io.LimitReader(r, n)", "	if n < 0 {\n		n = defaultMaxMetadataBytes\n	}\n	return io.LimitReader(r, n)", ["limitReader/post:limit"], "limit 0 no longer falls back to the default")
