/*
Copyright The ORAS Authors.
Licensed under the Apache License, Version 2.0 (the "License");
you may not use this file except in compliance with the License.
You may obtain a copy of the License at

http://www.apache.org/licenses/LICENSE-2.0

Unless required by applicable law or agreed to in writing, software
distributed under the License is distributed on an "AS IS" BASIS,
WITHOUT WARRANTIES OR CONDITIONS OF ANY KIND, either express or implied.
See the License for the specific language governing permissions and
limitations under the License.
*/

package oras

import "fmt"

// CopyErrorOrigin defines the source of a copy error.
type CopyErrorOrigin int

const (
	// CopyErrorOriginSource indicates the error occurred at the source side.
	CopyErrorOriginSource CopyErrorOrigin = 1

	// CopyErrorOriginDestination indicates the error occurred at the destination side.
	CopyErrorOriginDestination CopyErrorOrigin = 2
)

// String returns the string representation of the CopyErrorOrigin.
func (o CopyErrorOrigin) String() string {
	switch o {
	case CopyErrorOriginSource:
		return "source"
	case CopyErrorOriginDestination:
		return "destination"
	default:
		return "unknown"
	}
}

// CopyError represents an error encountered during a copy operation.
type CopyError struct {
	// Op is the operation that caused the error.
	Op string
	// Origin indicates the source of the error.
	Origin CopyErrorOrigin
	// Err is the underlying error.
	Err error
}

// newCopyError creates a new CopyError.
func newCopyError(op string, origin CopyErrorOrigin, err error) error {
	if err == nil {
		return nil
	}
	return &CopyError{
		Op:     op,
		Origin: origin,
		Err:    err,
	}
}

// Error implements the error interface for CopyError.
func (e *CopyError) Error() string {
	switch e.Origin {
	case CopyErrorOriginSource, CopyErrorOriginDestination:
		return fmt.Sprintf("failed to perform %q on %s: %v", e.Op, e.Origin, e.Err)
	default:
		return fmt.Sprintf("failed to perform %q: %v", e.Op, e.Err)
	}
}

// Unwrap implements the errors.Unwrap interface for CopyError.
func (e *CopyError) Unwrap() error {
	return e.Err
}
