/*
Copyright The ORAS Authors.
Licensed under the Apache License, Version 2.0 (the "License");
you may not use this file except in compliance with the License.
You may obtain a copy of the License at

http://www.apache.org/licenses/LICENSE-2.0

Unless required by applicable law or agreed to in writing, software
distributed under the License is distributed on an "AS IS" BASIS,
WITHOUT WARRANTIES OR CONDITIONS OF ANY KIND, either express or implied.
See the License for the specific language governing permissions and
limitations under the License.
*/

package httputil

import (
	"errors"
	"fmt"
	"io"
	"net/http"
)

// Client is an interface for a HTTP client.
// This interface is defined inside this package to prevent potential import
// loop.
type Client interface {
	// Do sends an HTTP request and returns an HTTP response.
	Do(*http.Request) (*http.Response, error)
}

// readSeekCloser seeks http body by starting new connections.
type readSeekCloser struct {
	client Client
	req    *http.Request
	rc     io.ReadCloser
	size   int64
	offset int64
	closed bool
}

// NewReadSeekCloser returns a seeker to make the HTTP response seekable.
// Callers should ensure that the server supports Range request.
func NewReadSeekCloser(client Client, req *http.Request, respBody io.ReadCloser, size int64) io.ReadSeekCloser {
	return &readSeekCloser{
		client: client,
		req:    req,
		rc:     respBody,
		size:   size,
	}
}

// Read reads the content body and counts offset.
func (rsc *readSeekCloser) Read(p []byte) (n int, err error) {
	if rsc.closed {
		return 0, errors.New("read: already closed")
	}
	n, err = rsc.rc.Read(p)
	rsc.offset += int64(n)
	return
}

// Seek starts a new connection to the remote for reading if position changes.
func (rsc *readSeekCloser) Seek(offset int64, whence int) (int64, error) {
	if rsc.closed {
		return 0, errors.New("seek: already closed")
	}
	switch whence {
	case io.SeekCurrent:
		offset += rsc.offset
	case io.SeekStart:
		// no-op
	case io.SeekEnd:
		offset += rsc.size
	default:
		return 0, errors.New("seek: invalid whence")
	}
	if offset < 0 {
		return 0, errors.New("seek: an attempt was made to move the pointer before the beginning of the content")
	}
	if offset == rsc.offset {
		return offset, nil
	}
	if offset >= rsc.size {
		rsc.rc.Close()
		rsc.rc = http.NoBody
		rsc.offset = offset
		return offset, nil
	}

	req := rsc.req.Clone(rsc.req.Context())
	req.Header.Set("Range", fmt.Sprintf("bytes=%d-%d", offset, rsc.size-1))
	resp, err := rsc.client.Do(req)
	if err != nil {
		return 0, fmt.Errorf("seek: %s %q: %w", req.Method, req.URL, err)
	}
	if resp.StatusCode != http.StatusPartialContent {
		resp.Body.Close()
		return 0, fmt.Errorf("seek: %s %q: unexpected status code %d", resp.Request.Method, resp.Request.URL, resp.StatusCode)
	}

	rsc.rc.Close()
	rsc.rc = resp.Body
	rsc.offset = offset
	return offset, nil
}

// Close closes the content body.
func (rsc *readSeekCloser) Close() error {
	if rsc.closed {
		return nil
	}
	rsc.closed = true
	return rsc.rc.Close()
}
