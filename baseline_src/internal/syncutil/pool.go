/*
Copyright The ORAS Authors.
Licensed under the Apache License, Version 2.0 (the "License");
you may not use this file except in compliance with the License.
You may obtain a copy of the License at

http://www.apache.org/licenses/LICENSE-2.0

Unless required by applicable law or agreed to in writing, software
distributed under the License is distributed on an "AS IS" BASIS,
WITHOUT WARRANTIES OR CONDITIONS OF ANY KIND, either express or implied.
See the License for the specific language governing permissions and
limitations under the License.
*/

package syncutil

import "sync"

// poolItem represents an item in Pool.
type poolItem[T any] struct {
	value    T
	refCount int
}

// Pool is a scalable pool with items identified by keys.
type Pool[T any] struct {
	// New optionally specifies a function to generate a value when Get would
	// otherwise return nil.
	// It may not be changed concurrently with calls to Get.
	New func() T

	lock  sync.Mutex
	items map[any]*poolItem[T]
}

// Get gets the value identified by key.
// The caller should invoke the returned function after using the returned item.
func (p *Pool[T]) Get(key any) (*T, func()) {
	p.lock.Lock()
	defer p.lock.Unlock()

	item, ok := p.items[key]
	if !ok {
		if p.items == nil {
			p.items = make(map[any]*poolItem[T])
		}
		item = &poolItem[T]{}
		if p.New != nil {
			item.value = p.New()
		}
		p.items[key] = item
	}
	item.refCount++

	return &item.value, func() {
		p.lock.Lock()
		defer p.lock.Unlock()
		item.refCount--
		if item.refCount <= 0 {
			delete(p.items, key)
		}
	}
}
