/*
Copyright The ORAS Authors.
Licensed under the Apache License, Version 2.0 (the "License");
you may not use this file except in compliance with the License.
You may obtain a copy of the License at

http://www.apache.org/licenses/LICENSE-2.0

Unless required by applicable law or agreed to in writing, software
distributed under the License is distributed on an "AS IS" BASIS,
WITHOUT WARRANTIES OR CONDITIONS OF ANY KIND, either express or implied.
See the License for the specific language governing permissions and
limitations under the License.
*/

package syncutil

import "sync"

// mergeStatus represents the merge status of an item.
type mergeStatus struct {
	// main indicates if items are being merged by the current go-routine.
	main bool
	// err represents the error of the merge operation.
	err error
}

// Merge represents merge operations on items.
// The state transfer is shown as below:
//
//	           +----------+
//	           |  Start   +--------+-------------+
//	           +----+-----+        |             |
//	                |              |             |
//	                v              v             v
//	           +----+-----+   +----+----+   +----+----+
//	   +-------+ Prepare  +<--+ Pending +-->+ Waiting |
//	   |       +----+-----+   +---------+   +----+----+
//	   |            |                            |
//	   |            v                            |
//	   |       + ---+---- +                      |
//	On Error   | Resolve  |                      |
//	   |       + ---+---- +                      |
//	   |            |                            |
//	   |            v                            |
//	   |       +----+-----+                      |
//	   +------>+ Complete +<---------------------+
//	           +----+-----+
//	                |
//	                v
//	           +----+-----+
//	           |   End    |
//	           +----------+
type Merge[T any] struct {
	lock          sync.Mutex
	committed     bool
	items         []T
	status        chan mergeStatus
	pending       []T
	pendingStatus chan mergeStatus
}

// Do merges concurrent operations of items into a single call of prepare and
// resolve.
// If Do is called multiple times concurrently, only one of the calls will be
// selected to invoke prepare and resolve.
func (m *Merge[T]) Do(item T, prepare func() error, resolve func(items []T) error) error {
	status := <-m.assign(item)
	if status.main {
		err := prepare()
		items := m.commit()
		if err == nil {
			err = resolve(items)
		}
		m.complete(err)
		return err
	}
	return status.err
}

// assign adds a new item into the item list.
func (m *Merge[T]) assign(item T) <-chan mergeStatus {
	m.lock.Lock()
	defer m.lock.Unlock()

	if m.committed {
		if m.pendingStatus == nil {
			m.pendingStatus = make(chan mergeStatus, 1)
		}
		m.pending = append(m.pending, item)
		return m.pendingStatus
	}

	if m.status == nil {
		m.status = make(chan mergeStatus, 1)
		m.status <- mergeStatus{main: true}
	}
	m.items = append(m.items, item)
	return m.status
}

// commit closes the assignment window, and the assigned items will be ready
// for resolve.
func (m *Merge[T]) commit() []T {
	m.lock.Lock()
	defer m.lock.Unlock()

	m.committed = true
	return m.items
}

// complete completes the previous merge, and moves the pending items to the
// stage for the next merge.
func (m *Merge[T]) complete(err error) {
	// notify results
	if err == nil {
		close(m.status)
	} else {
		remaining := len(m.items) - 1
		status := m.status
		for remaining > 0 {
			status <- mergeStatus{err: err}
			remaining--
		}
	}

	// move pending items to the stage
	m.lock.Lock()
	defer m.lock.Unlock()

	m.committed = false
	m.items = m.pending
	m.status = m.pendingStatus
	m.pending = nil
	m.pendingStatus = nil

	if m.status != nil {
		m.status <- mergeStatus{main: true}
	}
}
