/*
Copyright The ORAS Authors.
Licensed under the Apache License, Version 2.0 (the "License");
you may not use this file except in compliance with the License.
You may obtain a copy of the License at

http://www.apache.org/licenses/LICENSE-2.0

Unless required by applicable law or agreed to in writing, software
distributed under the License is distributed on an "AS IS" BASIS,
WITHOUT WARRANTIES OR CONDITIONS OF ANY KIND, either express or implied.
See the License for the specific language governing permissions and
limitations under the License.
*/

package syncutil

import (
	"context"
	"sync"
	"sync/atomic"
)

// Once is an object that will perform exactly one action.
// Unlike sync.Once, this Once allows the action to have return values.
type Once struct {
	result interface{}
	err    error
	status chan bool
}

// NewOnce creates a new Once instance.
func NewOnce() *Once {
	status := make(chan bool, 1)
	status <- true
	return &Once{
		status: status,
	}
}

// Do calls the function f if and only if Do is being called first time or all
// previous function calls are cancelled, deadline exceeded, or panicking.
// When `once.Do(ctx, f)` is called multiple times, the return value of the
// first call of the function f is stored, and is directly returned for other
// calls.
// Besides the return value of the function f, including the error, Do returns
// true if the function f passed is called first and is not cancelled, deadline
// exceeded, or panicking. Otherwise, returns false.
func (o *Once) Do(ctx context.Context, f func() (interface{}, error)) (bool, interface{}, error) {
	defer func() {
		if r := recover(); r != nil {
			o.status <- true
			panic(r)
		}
	}()
	for {
		select {
		case inProgress := <-o.status:
			if !inProgress {
				return false, o.result, o.err
			}
			result, err := f()
			if err == context.Canceled || err == context.DeadlineExceeded {
				o.status <- true
				return false, nil, err
			}
			o.result, o.err = result, err
			close(o.status)
			return true, result, err
		case <-ctx.Done():
			return false, nil, ctx.Err()
		}
	}
}

// OnceOrRetry is an object that will perform exactly one success action.
type OnceOrRetry struct {
	done atomic.Bool
	lock sync.Mutex
}

// OnceOrRetry calls the function f if and only if Do is being called for the
// first time for this instance of Once or all previous calls to Do are failed.
func (o *OnceOrRetry) Do(f func() error) error {
	// fast path
	if o.done.Load() {
		return nil
	}

	// slow path
	o.lock.Lock()
	defer o.lock.Unlock()

	if o.done.Load() {
		return nil
	}
	if err := f(); err != nil {
		return err
	}
	o.done.Store(true)
	return nil
}
