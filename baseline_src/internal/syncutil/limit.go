/*
Copyright The ORAS Authors.
Licensed under the Apache License, Version 2.0 (the "License");
you may not use this file except in compliance with the License.
You may obtain a copy of the License at

http://www.apache.org/licenses/LICENSE-2.0

Unless required by applicable law or agreed to in writing, software
distributed under the License is distributed on an "AS IS" BASIS,
WITHOUT WARRANTIES OR CONDITIONS OF ANY KIND, either express or implied.
See the License for the specific language governing permissions and
limitations under the License.
*/

package syncutil

import (
	"context"

	"golang.org/x/sync/errgroup"
	"golang.org/x/sync/semaphore"
)

// LimitedRegion provides a way to bound concurrent access to a code block.
type LimitedRegion struct {
	ctx     context.Context
	limiter *semaphore.Weighted
	ended   bool
}

// LimitRegion creates a new LimitedRegion.
func LimitRegion(ctx context.Context, limiter *semaphore.Weighted) *LimitedRegion {
	if limiter == nil {
		return nil
	}
	return &LimitedRegion{
		ctx:     ctx,
		limiter: limiter,
		ended:   true,
	}
}

// Start starts the region with concurrency limit.
func (lr *LimitedRegion) Start() error {
	if lr == nil || !lr.ended {
		return nil
	}
	if err := lr.limiter.Acquire(lr.ctx, 1); err != nil {
		return err
	}
	lr.ended = false
	return nil
}

// End ends the region with concurrency limit.
func (lr *LimitedRegion) End() {
	if lr == nil || lr.ended {
		return
	}
	lr.limiter.Release(1)
	lr.ended = true
}

// GoFunc represents a function that can be invoked by Go.
type GoFunc[T any] func(ctx context.Context, region *LimitedRegion, t T) error

// Go concurrently invokes fn on items.
func Go[T any](ctx context.Context, limiter *semaphore.Weighted, fn GoFunc[T], items ...T) error {
	ctx, cancel := context.WithCancelCause(ctx)
	defer cancel(nil)

	eg, egCtx := errgroup.WithContext(ctx)
	for _, item := range items {
		region := LimitRegion(egCtx, limiter)
		if err := region.Start(); err != nil {
			cancel(err)
			// break loop instead of returning to allow previously scheduled
			// goroutines to finish their deferred region.End() calls
			break
		}

		eg.Go(func(t T, lr *LimitedRegion) func() error {
			return func() error {
				defer lr.End()

				select {
				case <-egCtx.Done():
					// skip the task if the context is already cancelled
					return nil
				default:
				}

				if err := fn(egCtx, lr, t); err != nil {
					cancel(err)
					return err
				}
				return nil
			}
		}(item, region))
	}

	if err := eg.Wait(); err != nil {
		cancel(err)
	}
	return context.Cause(ctx)
}
