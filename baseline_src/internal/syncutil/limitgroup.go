/*
Copyright The ORAS Authors.
Licensed under the Apache License, Version 2.0 (the "License");
you may not use this file except in compliance with the License.
You may obtain a copy of the License at

http://www.apache.org/licenses/LICENSE-2.0

Unless required by applicable law or agreed to in writing, software
distributed under the License is distributed on an "AS IS" BASIS,
WITHOUT WARRANTIES OR CONDITIONS OF ANY KIND, either express or implied.
See the License for the specific language governing permissions and
limitations under the License.
*/

package syncutil

import (
	"context"

	"golang.org/x/sync/errgroup"
)

// LimitedGroup is a collection of goroutines working on subtasks that are part of
// the same overall task.
type LimitedGroup struct {
	grp *errgroup.Group
	ctx context.Context
}

// LimitGroup returns a new LimitedGroup and an associated Context derived from ctx.
//
// The number of active goroutines in this group is limited to the given limit.
// A negative value indicates no limit.
//
// The derived Context is canceled the first time a function passed to Go
// returns a non-nil error or the first time Wait returns, whichever occurs
// first.
func LimitGroup(ctx context.Context, limit int) (*LimitedGroup, context.Context) {
	grp, ctx := errgroup.WithContext(ctx)
	grp.SetLimit(limit)
	return &LimitedGroup{grp: grp, ctx: ctx}, ctx
}

// Go calls the given function in a new goroutine.
// It blocks until the new goroutine can be added without the number of
// active goroutines in the group exceeding the configured limit.
//
// The first call to return a non-nil error cancels the group's context.
// After which, any subsequent calls to Go will not execute their given function.
// The error will be returned by Wait.
func (g *LimitedGroup) Go(f func() error) {
	g.grp.Go(func() error {
		select {
		case <-g.ctx.Done():
			return g.ctx.Err()
		default:
			return f()
		}
	})
}

// Wait blocks until all function calls from the Go method have returned, then
// returns the first non-nil error (if any) from them.
func (g *LimitedGroup) Wait() error {
	return g.grp.Wait()
}
