/*
Copyright The ORAS Authors.
Licensed under the Apache License, Version 2.0 (the "License");
you may not use this file except in compliance with the License.
You may obtain a copy of the License at

http://www.apache.org/licenses/LICENSE-2.0

Unless required by applicable law or agreed to in writing, software
distributed under the License is distributed on an "AS IS" BASIS,
WITHOUT WARRANTIES OR CONDITIONS OF ANY KIND, either express or implied.
See the License for the specific language governing permissions and
limitations under the License.
*/

package graph

import (
	"context"
	"errors"
	"sync"

	"github.com/opencontainers/go-digest"
	ocispec "github.com/opencontainers/image-spec/specs-go/v1"
	"oras.land/oras-go/v2/content"
	"oras.land/oras-go/v2/errdef"
	"oras.land/oras-go/v2/internal/container/set"
	"oras.land/oras-go/v2/internal/descriptor"
	"oras.land/oras-go/v2/internal/status"
	"oras.land/oras-go/v2/internal/syncutil"
)

// Memory is a memory based PredecessorFinder.
type Memory struct {
	// nodes has the following properties and behaviors:
	//  1. a node exists in Memory.nodes if and only if it exists in the memory
	//  2. Memory.nodes saves the ocispec.Descriptor map keys, which are used by
	//    the other fields.
	nodes map[descriptor.Descriptor]ocispec.Descriptor

	// predecessors has the following properties and behaviors:
	//  1. a node exists in Memory.predecessors if it has at least one predecessor
	//    in the memory, regardless of whether or not the node itself exists in
	//    the memory.
	//  2. a node does not exist in Memory.predecessors, if it doesn't have any predecessors
	//    in the memory.
	predecessors map[descriptor.Descriptor]set.Set[descriptor.Descriptor]

	// successors has the following properties and behaviors:
	//  1. a node exists in Memory.successors if and only if it exists in the memory.
	//  2. a node's entry in Memory.successors is always consistent with the actual
	//    content of the node, regardless of whether or not each successor exists
	//    in the memory.
	successors map[descriptor.Descriptor]set.Set[descriptor.Descriptor]

	lock sync.RWMutex
}

// NewMemory creates a new memory PredecessorFinder.
func NewMemory() *Memory {
	return &Memory{
		nodes:        make(map[descriptor.Descriptor]ocispec.Descriptor),
		predecessors: make(map[descriptor.Descriptor]set.Set[descriptor.Descriptor]),
		successors:   make(map[descriptor.Descriptor]set.Set[descriptor.Descriptor]),
	}
}

// Index indexes predecessors for each direct successor of the given node.
func (m *Memory) Index(ctx context.Context, fetcher content.Fetcher, node ocispec.Descriptor) error {
	_, err := m.index(ctx, fetcher, node)
	return err
}

// Index indexes predecessors for all the successors of the given node.
func (m *Memory) IndexAll(ctx context.Context, fetcher content.Fetcher, node ocispec.Descriptor) error {
	// track content status
	tracker := status.NewTracker()
	var fn syncutil.GoFunc[ocispec.Descriptor]
	fn = func(ctx context.Context, region *syncutil.LimitedRegion, desc ocispec.Descriptor) error {
		// skip the node if other go routine is working on it
		_, committed := tracker.TryCommit(desc)
		if !committed {
			return nil
		}
		successors, err := m.index(ctx, fetcher, desc)
		if err != nil {
			if errors.Is(err, errdef.ErrNotFound) {
				// skip the node if it does not exist
				return nil
			}
			return err
		}
		if len(successors) > 0 {
			// traverse and index successors
			return syncutil.Go(ctx, nil, fn, successors...)
		}
		return nil
	}
	return syncutil.Go(ctx, nil, fn, node)
}

// Predecessors returns the nodes directly pointing to the current node.
// Predecessors returns nil without error if the node does not exists in the
// store. Like other operations, calling Predecessors() is go-routine safe.
// However, it does not necessarily correspond to any consistent snapshot of
// the stored contents.
func (m *Memory) Predecessors(_ context.Context, node ocispec.Descriptor) ([]ocispec.Descriptor, error) {
	m.lock.RLock()
	defer m.lock.RUnlock()

	key := descriptor.FromOCI(node)
	set, exists := m.predecessors[key]
	if !exists {
		return nil, nil
	}
	var res []ocispec.Descriptor
	for k := range set {
		res = append(res, m.nodes[k])
	}
	return res, nil
}

// Remove removes the node from its predecessors and successors, and returns the
// dangling root nodes caused by the deletion.
func (m *Memory) Remove(node ocispec.Descriptor) []ocispec.Descriptor {
	m.lock.Lock()
	defer m.lock.Unlock()

	nodeKey := descriptor.FromOCI(node)
	var danglings []ocispec.Descriptor
	// remove the node from its successors' predecessor list
	for successorKey := range m.successors[nodeKey] {
		predecessorEntry := m.predecessors[successorKey]
		predecessorEntry.Delete(nodeKey)

		// if none of the predecessors of the node still exists, we remove the
		// predecessors entry and return it as a dangling node. Otherwise, we do
		// not remove the entry.
		if len(predecessorEntry) == 0 {
			delete(m.predecessors, successorKey)
			if _, exists := m.nodes[successorKey]; exists {
				danglings = append(danglings, m.nodes[successorKey])
			}
		}
	}
	delete(m.successors, nodeKey)
	delete(m.nodes, nodeKey)
	return danglings
}

// DigestSet returns the set of node digest in memory.
func (m *Memory) DigestSet() set.Set[digest.Digest] {
	m.lock.RLock()
	defer m.lock.RUnlock()

	s := set.New[digest.Digest]()
	for desc := range m.nodes {
		s.Add(desc.Digest)
	}
	return s
}

// index indexes predecessors for each direct successor of the given node.
func (m *Memory) index(ctx context.Context, fetcher content.Fetcher, node ocispec.Descriptor) ([]ocispec.Descriptor, error) {
	successors, err := content.Successors(ctx, fetcher, node)
	if err != nil {
		return nil, err
	}
	m.lock.Lock()
	defer m.lock.Unlock()

	// index the node
	nodeKey := descriptor.FromOCI(node)
	m.nodes[nodeKey] = node

	// for each successor, put it into the node's successors list, and
	// put node into the succeesor's predecessors list
	successorSet := set.New[descriptor.Descriptor]()
	m.successors[nodeKey] = successorSet
	for _, successor := range successors {
		successorKey := descriptor.FromOCI(successor)
		successorSet.Add(successorKey)
		predecessorSet, exists := m.predecessors[successorKey]
		if !exists {
			predecessorSet = set.New[descriptor.Descriptor]()
			m.predecessors[successorKey] = predecessorSet
		}
		predecessorSet.Add(nodeKey)
	}
	return successors, nil
}

// Exists checks if the node exists in the graph
func (m *Memory) Exists(node ocispec.Descriptor) bool {
	m.lock.RLock()
	defer m.lock.RUnlock()

	nodeKey := descriptor.FromOCI(node)
	_, exists := m.nodes[nodeKey]
	return exists
}
