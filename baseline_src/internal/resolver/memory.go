/*
Copyright The ORAS Authors.
Licensed under the Apache License, Version 2.0 (the "License");
you may not use this file except in compliance with the License.
You may obtain a copy of the License at

http://www.apache.org/licenses/LICENSE-2.0

Unless required by applicable law or agreed to in writing, software
distributed under the License is distributed on an "AS IS" BASIS,
WITHOUT WARRANTIES OR CONDITIONS OF ANY KIND, either express or implied.
See the License for the specific language governing permissions and
limitations under the License.
*/

package resolver

import (
	"context"
	"fmt"
	"maps"
	"sync"

	"github.com/opencontainers/go-digest"
	ocispec "github.com/opencontainers/image-spec/specs-go/v1"
	"oras.land/oras-go/v2/errdef"
	"oras.land/oras-go/v2/internal/container/set"
)

// Memory is a memory based resolver.
type Memory struct {
	lock  sync.RWMutex
	index map[string]ocispec.Descriptor
	tags  map[digest.Digest]set.Set[string]
}

// NewMemory creates a new Memory resolver.
func NewMemory() *Memory {
	return &Memory{
		index: make(map[string]ocispec.Descriptor),
		tags:  make(map[digest.Digest]set.Set[string]),
	}
}

// Resolve resolves a reference to a descriptor.
func (m *Memory) Resolve(_ context.Context, reference string) (ocispec.Descriptor, error) {
	m.lock.RLock()
	defer m.lock.RUnlock()

	desc, ok := m.index[reference]
	if !ok {
		return ocispec.Descriptor{}, fmt.Errorf("%s: %w", reference, errdef.ErrNotFound)
	}
	return desc, nil
}

// Tag tags a descriptor with a reference string.
func (m *Memory) Tag(_ context.Context, desc ocispec.Descriptor, reference string) error {
	m.lock.Lock()
	defer m.lock.Unlock()

	// a reference that is being moved no longer tags its previous target
	if old, ok := m.index[reference]; ok && old.Digest != desc.Digest {
		oldTagSet := m.tags[old.Digest]
		oldTagSet.Delete(reference)
		if len(oldTagSet) == 0 {
			delete(m.tags, old.Digest)
		}
	}
	m.index[reference] = desc
	tagSet, ok := m.tags[desc.Digest]
	if !ok {
		tagSet = set.New[string]()
		m.tags[desc.Digest] = tagSet
	}
	tagSet.Add(reference)
	return nil
}

// Untag removes a reference from index map.
func (m *Memory) Untag(reference string) {
	m.lock.Lock()
	defer m.lock.Unlock()

	desc, ok := m.index[reference]
	if !ok {
		return
	}
	delete(m.index, reference)
	tagSet := m.tags[desc.Digest]
	tagSet.Delete(reference)
	if len(tagSet) == 0 {
		delete(m.tags, desc.Digest)
	}
}

// Map dumps the memory into a built-in map structure.
// Like other operations, calling Map() is go-routine safe.
func (m *Memory) Map() map[string]ocispec.Descriptor {
	m.lock.RLock()
	defer m.lock.RUnlock()

	return maps.Clone(m.index)
}

// TagSet returns the set of tags of the descriptor.
func (m *Memory) TagSet(desc ocispec.Descriptor) set.Set[string] {
	m.lock.RLock()
	defer m.lock.RUnlock()

	tagSet := m.tags[desc.Digest]
	return maps.Clone(tagSet)
}
