/*
Copyright The ORAS Authors.
Licensed under the Apache License, Version 2.0 (the "License");
you may not use this file except in compliance with the License.
You may obtain a copy of the License at

http://www.apache.org/licenses/LICENSE-2.0

Unless required by applicable law or agreed to in writing, software
distributed under the License is distributed on an "AS IS" BASIS,
WITHOUT WARRANTIES OR CONDITIONS OF ANY KIND, either express or implied.
See the License for the specific language governing permissions and
limitations under the License.
*/

package status

import (
	"sync"

	ocispec "github.com/opencontainers/image-spec/specs-go/v1"
	"oras.land/oras-go/v2/internal/descriptor"
)

// Tracker tracks content status described by a descriptor.
type Tracker struct {
	status sync.Map // map[descriptor.Descriptor]chan struct{}
}

// NewTracker creates a new content status tracker.
func NewTracker() *Tracker {
	return &Tracker{}
}

// TryCommit tries to commit the work for the target descriptor.
// Returns true if committed. A channel is also returned for sending
// notifications. Once the work is done, the channel should be closed.
// Returns false if the work is done or still in progress.
func (t *Tracker) TryCommit(target ocispec.Descriptor) (chan struct{}, bool) {
	key := descriptor.FromOCI(target)
	status, exists := t.status.LoadOrStore(key, make(chan struct{}))
	return status.(chan struct{}), !exists
}
