/*
Copyright The ORAS Authors.
Licensed under the Apache License, Version 2.0 (the "License");
you may not use this file except in compliance with the License.
You may obtain a copy of the License at

http://www.apache.org/licenses/LICENSE-2.0

Unless required by applicable law or agreed to in writing, software
distributed under the License is distributed on an "AS IS" BASIS,
WITHOUT WARRANTIES OR CONDITIONS OF ANY KIND, either express or implied.
See the License for the specific language governing permissions and
limitations under the License.
*/

package cas

import (
	"bytes"
	"context"
	"fmt"
	"io"
	"sync"

	ocispec "github.com/opencontainers/image-spec/specs-go/v1"
	contentpkg "oras.land/oras-go/v2/content"
	"oras.land/oras-go/v2/errdef"
	"oras.land/oras-go/v2/internal/descriptor"
)

// Memory is a memory based CAS.
type Memory struct {
	content sync.Map // map[descriptor.Descriptor][]byte
}

// NewMemory creates a new Memory CAS.
func NewMemory() *Memory {
	return &Memory{}
}

// Fetch fetches the content identified by the descriptor.
func (m *Memory) Fetch(_ context.Context, target ocispec.Descriptor) (io.ReadCloser, error) {
	key := descriptor.FromOCI(target)
	content, exists := m.content.Load(key)
	if !exists {
		return nil, fmt.Errorf("%s: %s: %w", key.Digest, key.MediaType, errdef.ErrNotFound)
	}
	return io.NopCloser(bytes.NewReader(content.([]byte))), nil
}

// Push pushes the content, matching the expected descriptor.
func (m *Memory) Push(_ context.Context, expected ocispec.Descriptor, content io.Reader) error {
	key := descriptor.FromOCI(expected)

	// check if the content exists in advance to avoid reading from the content.
	if _, exists := m.content.Load(key); exists {
		return fmt.Errorf("%s: %s: %w", key.Digest, key.MediaType, errdef.ErrAlreadyExists)
	}

	// read and try to store the content.
	value, err := contentpkg.ReadAll(content, expected)
	if err != nil {
		return err
	}
	if _, exists := m.content.LoadOrStore(key, value); exists {
		return fmt.Errorf("%s: %s: %w", key.Digest, key.MediaType, errdef.ErrAlreadyExists)
	}
	return nil
}

// Exists returns true if the described content exists.
func (m *Memory) Exists(_ context.Context, target ocispec.Descriptor) (bool, error) {
	key := descriptor.FromOCI(target)
	_, exists := m.content.Load(key)
	return exists, nil
}

// Map dumps the memory into a built-in map structure.
// Like other operations, calling Map() is go-routine safe. However, it does not
// necessarily correspond to any consistent snapshot of the storage contents.
func (m *Memory) Map() map[descriptor.Descriptor][]byte {
	res := make(map[descriptor.Descriptor][]byte)
	m.content.Range(func(key, value interface{}) bool {
		res[key.(descriptor.Descriptor)] = value.([]byte)
		return true
	})
	return res
}
