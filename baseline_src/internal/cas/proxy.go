/*
Copyright The ORAS Authors.
Licensed under the Apache License, Version 2.0 (the "License");
you may not use this file except in compliance with the License.
You may obtain a copy of the License at

http://www.apache.org/licenses/LICENSE-2.0

Unless required by applicable law or agreed to in writing, software
distributed under the License is distributed on an "AS IS" BASIS,
WITHOUT WARRANTIES OR CONDITIONS OF ANY KIND, either express or implied.
See the License for the specific language governing permissions and
limitations under the License.
*/

package cas

import (
	"context"
	"io"
	"sync"

	ocispec "github.com/opencontainers/image-spec/specs-go/v1"
	"oras.land/oras-go/v2/content"
	"oras.land/oras-go/v2/internal/ioutil"
)

// Proxy is a caching proxy for the storage.
// The first fetch call of a described content will read from the remote and
// cache the fetched content.
// The subsequent fetch call will read from the local cache.
type Proxy struct {
	content.ReadOnlyStorage
	Cache       content.Storage
	StopCaching bool
}

// NewProxy creates a proxy for the `base` storage, using the `cache` storage as
// the cache.
func NewProxy(base content.ReadOnlyStorage, cache content.Storage) *Proxy {
	return &Proxy{
		ReadOnlyStorage: base,
		Cache:           cache,
	}
}

// NewProxyWithLimit creates a proxy for the `base` storage, using the `cache`
// storage with a push size limit as the cache.
func NewProxyWithLimit(base content.ReadOnlyStorage, cache content.Storage, pushLimit int64) *Proxy {
	limitedCache := content.LimitStorage(cache, pushLimit)
	return &Proxy{
		ReadOnlyStorage: base,
		Cache:           limitedCache,
	}
}

// Fetch fetches the content identified by the descriptor.
func (p *Proxy) Fetch(ctx context.Context, target ocispec.Descriptor) (io.ReadCloser, error) {
	if p.StopCaching {
		return p.FetchCached(ctx, target)
	}

	rc, err := p.Cache.Fetch(ctx, target)
	if err == nil {
		return rc, nil
	}

	rc, err = p.ReadOnlyStorage.Fetch(ctx, target)
	if err != nil {
		return nil, err
	}
	pr, pw := io.Pipe()
	var wg sync.WaitGroup
	wg.Add(1)
	var pushErr error
	go func() {
		defer wg.Done()
		pushErr = p.Cache.Push(ctx, target, pr)
		if pushErr != nil {
			pr.CloseWithError(pushErr)
		}
	}()
	closer := ioutil.CloserFunc(func() error {
		rcErr := rc.Close()
		if err := pw.Close(); err != nil {
			return err
		}
		wg.Wait()
		if pushErr != nil {
			return pushErr
		}
		return rcErr
	})

	return struct {
		io.Reader
		io.Closer
	}{
		Reader: io.TeeReader(rc, pw),
		Closer: closer,
	}, nil
}

// FetchCached fetches the content identified by the descriptor.
// If the content is not cached, it will be fetched from the remote without
// caching.
func (p *Proxy) FetchCached(ctx context.Context, target ocispec.Descriptor) (io.ReadCloser, error) {
	exists, err := p.Cache.Exists(ctx, target)
	if err != nil {
		return nil, err
	}
	if exists {
		return p.Cache.Fetch(ctx, target)
	}
	return p.ReadOnlyStorage.Fetch(ctx, target)
}

// Exists returns true if the described content exists.
func (p *Proxy) Exists(ctx context.Context, target ocispec.Descriptor) (bool, error) {
	exists, err := p.Cache.Exists(ctx, target)
	if err == nil && exists {
		return true, nil
	}
	return p.ReadOnlyStorage.Exists(ctx, target)
}
