/*
Copyright The ORAS Authors.
Licensed under the Apache License, Version 2.0 (the "License");
you may not use this file except in compliance with the License.
You may obtain a copy of the License at

http://www.apache.org/licenses/LICENSE-2.0

Unless required by applicable law or agreed to in writing, software
distributed under the License is distributed on an "AS IS" BASIS,
WITHOUT WARRANTIES OR CONDITIONS OF ANY KIND, either express or implied.
See the License for the specific language governing permissions and
limitations under the License.
*/

package manifestutil

import (
	"context"
	"encoding/json"

	ocispec "github.com/opencontainers/image-spec/specs-go/v1"
	"oras.land/oras-go/v2/content"
	"oras.land/oras-go/v2/internal/docker"
	"oras.land/oras-go/v2/internal/spec"
)

// Config returns the config of desc, if present.
func Config(ctx context.Context, fetcher content.Fetcher, desc ocispec.Descriptor) (*ocispec.Descriptor, error) {
	switch desc.MediaType {
	case docker.MediaTypeManifest, ocispec.MediaTypeImageManifest:
		content, err := content.FetchAll(ctx, fetcher, desc)
		if err != nil {
			return nil, err
		}
		// OCI manifest schema can be used to marshal docker manifest
		var manifest ocispec.Manifest
		if err := json.Unmarshal(content, &manifest); err != nil {
			return nil, err
		}
		return &manifest.Config, nil
	default:
		return nil, nil
	}
}

// Manifest returns the manifests of desc, if present.
func Manifests(ctx context.Context, fetcher content.Fetcher, desc ocispec.Descriptor) ([]ocispec.Descriptor, error) {
	switch desc.MediaType {
	case docker.MediaTypeManifestList, ocispec.MediaTypeImageIndex:
		content, err := content.FetchAll(ctx, fetcher, desc)
		if err != nil {
			return nil, err
		}
		// OCI manifest index schema can be used to marshal docker manifest list
		var index ocispec.Index
		if err := json.Unmarshal(content, &index); err != nil {
			return nil, err
		}
		return index.Manifests, nil
	default:
		return nil, nil
	}
}

// Subject returns the subject of desc, if present.
func Subject(ctx context.Context, fetcher content.Fetcher, desc ocispec.Descriptor) (*ocispec.Descriptor, error) {
	switch desc.MediaType {
	case ocispec.MediaTypeImageManifest, ocispec.MediaTypeImageIndex, spec.MediaTypeArtifactManifest:
		content, err := content.FetchAll(ctx, fetcher, desc)
		if err != nil {
			return nil, err
		}
		var manifest struct {
			Subject *ocispec.Descriptor `json:"subject,omitempty"`
		}
		if err := json.Unmarshal(content, &manifest); err != nil {
			return nil, err
		}
		return manifest.Subject, nil
	default:
		return nil, nil
	}
}
