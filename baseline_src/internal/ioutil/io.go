/*
Copyright The ORAS Authors.
Licensed under the Apache License, Version 2.0 (the "License");
you may not use this file except in compliance with the License.
You may obtain a copy of the License at

http://www.apache.org/licenses/LICENSE-2.0

Unless required by applicable law or agreed to in writing, software
distributed under the License is distributed on an "AS IS" BASIS,
WITHOUT WARRANTIES OR CONDITIONS OF ANY KIND, either express or implied.
See the License for the specific language governing permissions and
limitations under the License.
*/

package ioutil

import (
	"fmt"
	"io"
	"reflect"

	ocispec "github.com/opencontainers/image-spec/specs-go/v1"
	"oras.land/oras-go/v2/content"
)

// CloserFunc is the basic Close method defined in io.Closer.
type CloserFunc func() error

// Close performs close operation by the CloserFunc.
func (fn CloserFunc) Close() error {
	return fn()
}

// CopyBuffer copies from src to dst through the provided buffer
// until either EOF is reached on src, or an error occurs.
// The copied content is verified against the size and the digest.
func CopyBuffer(dst io.Writer, src io.Reader, buf []byte, desc ocispec.Descriptor) error {
	// verify while copying
	vr := content.NewVerifyReader(src, desc)
	if _, err := io.CopyBuffer(dst, vr, buf); err != nil {
		return fmt.Errorf("copy failed: %w", err)
	}
	return vr.Verify()
}

// Types returned by `io.NopCloser()`.
var (
	nopCloserType         = reflect.TypeOf(io.NopCloser(nil))
	nopCloserWriterToType = reflect.TypeOf(io.NopCloser(struct {
		io.Reader
		io.WriterTo
	}{}))
)

// UnwrapNopCloser unwraps the reader wrapped by `io.NopCloser()`.
// Similar implementation can be found in the built-in package `net/http`.
// Reference: https://github.com/golang/go/blob/go1.22.1/src/net/http/transfer.go#L1090-L1105
func UnwrapNopCloser(r io.Reader) io.Reader {
	switch reflect.TypeOf(r) {
	case nopCloserType, nopCloserWriterToType:
		return reflect.ValueOf(r).Field(0).Interface().(io.Reader)
	default:
		return r
	}
}
