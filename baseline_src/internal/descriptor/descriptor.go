/*
Copyright The ORAS Authors.
Licensed under the Apache License, Version 2.0 (the "License");
you may not use this file except in compliance with the License.
You may obtain a copy of the License at

http://www.apache.org/licenses/LICENSE-2.0

Unless required by applicable law or agreed to in writing, software
distributed under the License is distributed on an "AS IS" BASIS,
WITHOUT WARRANTIES OR CONDITIONS OF ANY KIND, either express or implied.
See the License for the specific language governing permissions and
limitations under the License.
*/

package descriptor

import (
	"github.com/opencontainers/go-digest"
	ocispec "github.com/opencontainers/image-spec/specs-go/v1"
	"oras.land/oras-go/v2/internal/docker"
	"oras.land/oras-go/v2/internal/spec"
)

// DefaultMediaType is the media type used when no media type is specified.
const DefaultMediaType string = "application/octet-stream"

// Descriptor contains the minimun information to describe the disposition of
// targeted content.
// Since it only has strings and integers, Descriptor is a comparable struct.
type Descriptor struct {
	// MediaType is the media type of the object this schema refers to.
	MediaType string `json:"mediaType,omitempty"`

	// Digest is the digest of the targeted content.
	Digest digest.Digest `json:"digest"`

	// Size specifies the size in bytes of the blob.
	Size int64 `json:"size"`
}

// Empty is an empty descriptor
var Empty Descriptor

// FromOCI shrinks the OCI descriptor to the minimum.
func FromOCI(desc ocispec.Descriptor) Descriptor {
	return Descriptor{
		MediaType: desc.MediaType,
		Digest:    desc.Digest,
		Size:      desc.Size,
	}
}

// IsForeignLayer checks if a descriptor describes a foreign layer.
func IsForeignLayer(desc ocispec.Descriptor) bool {
	switch desc.MediaType {
	case ocispec.MediaTypeImageLayerNonDistributable,
		ocispec.MediaTypeImageLayerNonDistributableGzip,
		ocispec.MediaTypeImageLayerNonDistributableZstd,
		docker.MediaTypeForeignLayer:
		return true
	default:
		return false
	}
}

// IsManifest checks if a descriptor describes a manifest.
func IsManifest(desc ocispec.Descriptor) bool {
	switch desc.MediaType {
	case docker.MediaTypeManifest,
		docker.MediaTypeManifestList,
		ocispec.MediaTypeImageManifest,
		ocispec.MediaTypeImageIndex,
		spec.MediaTypeArtifactManifest:
		return true
	default:
		return false
	}
}

// Plain returns a plain descriptor that contains only MediaType, Digest and
// Size.
func Plain(desc ocispec.Descriptor) ocispec.Descriptor {
	return ocispec.Descriptor{
		MediaType: desc.MediaType,
		Digest:    desc.Digest,
		Size:      desc.Size,
	}
}
