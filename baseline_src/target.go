/*
Copyright The ORAS Authors.
Licensed under the Apache License, Version 2.0 (the "License");
you may not use this file except in compliance with the License.
You may obtain a copy of the License at

http://www.apache.org/licenses/LICENSE-2.0

Unless required by applicable law or agreed to in writing, software
distributed under the License is distributed on an "AS IS" BASIS,
WITHOUT WARRANTIES OR CONDITIONS OF ANY KIND, either express or implied.
See the License for the specific language governing permissions and
limitations under the License.
*/

package oras

import "oras.land/oras-go/v2/content"

// Target is a CAS with generic tags.
type Target interface {
	content.Storage
	content.TagResolver
}

// GraphTarget is a CAS with generic tags that supports direct predecessor node
// finding.
type GraphTarget interface {
	content.GraphStorage
	content.TagResolver
}

// ReadOnlyTarget represents a read-only Target.
type ReadOnlyTarget interface {
	content.ReadOnlyStorage
	content.Resolver
}

// ReadOnlyGraphTarget represents a read-only GraphTarget.
type ReadOnlyGraphTarget interface {
	content.ReadOnlyGraphStorage
	content.Resolver
}
