/*
Copyright The ORAS Authors.
Licensed under the Apache License, Version 2.0 (the "License");
you may not use this file except in compliance with the License.
You may obtain a copy of the License at

http://www.apache.org/licenses/LICENSE-2.0

Unless required by applicable law or agreed to in writing, software
distributed under the License is distributed on an "AS IS" BASIS,
WITHOUT WARRANTIES OR CONDITIONS OF ANY KIND, either express or implied.
See the License for the specific language governing permissions and
limitations under the License.
*/

package oras

import (
	"bytes"
	"context"
	"errors"
	"fmt"
	"io"

	ocispec "github.com/opencontainers/image-spec/specs-go/v1"
	"oras.land/oras-go/v2/content"
	"oras.land/oras-go/v2/errdef"
	"oras.land/oras-go/v2/internal/cas"
	"oras.land/oras-go/v2/internal/docker"
	"oras.land/oras-go/v2/internal/interfaces"
	"oras.land/oras-go/v2/internal/platform"
	"oras.land/oras-go/v2/internal/syncutil"
	"oras.land/oras-go/v2/registry"
	"oras.land/oras-go/v2/registry/remote/auth"
)

const (
	// defaultTagConcurrency is the default concurrency of tagging.
	defaultTagConcurrency int = 5 // This value is consistent with dockerd

	// defaultTagNMaxMetadataBytes is the default value of
	// TagNOptions.MaxMetadataBytes.
	defaultTagNMaxMetadataBytes int64 = 4 * 1024 * 1024 // 4 MiB

	// defaultResolveMaxMetadataBytes is the default value of
	// ResolveOptions.MaxMetadataBytes.
	defaultResolveMaxMetadataBytes int64 = 4 * 1024 * 1024 // 4 MiB

	// defaultMaxBytes is the default value of FetchBytesOptions.MaxBytes.
	defaultMaxBytes int64 = 4 * 1024 * 1024 // 4 MiB
)

// DefaultTagNOptions provides the default TagNOptions.
var DefaultTagNOptions TagNOptions

// TagNOptions contains parameters for [oras.TagN].
type TagNOptions struct {
	// Concurrency limits the maximum number of concurrent tag tasks.
	// If less than or equal to 0, a default (currently 5) is used.
	Concurrency int

	// MaxMetadataBytes limits the maximum size of metadata that can be cached
	// in the memory.
	// If less than or equal to 0, a default (currently 4 MiB) is used.
	MaxMetadataBytes int64
}

// TagN tags the descriptor identified by srcReference with dstReferences.
func TagN(ctx context.Context, target Target, srcReference string, dstReferences []string, opts TagNOptions) (ocispec.Descriptor, error) {
	switch len(dstReferences) {
	case 0:
		return ocispec.Descriptor{}, fmt.Errorf("dstReferences cannot be empty: %w", errdef.ErrMissingReference)
	case 1:
		return Tag(ctx, target, srcReference, dstReferences[0])
	}

	if opts.Concurrency <= 0 {
		opts.Concurrency = defaultTagConcurrency
	}
	if opts.MaxMetadataBytes <= 0 {
		opts.MaxMetadataBytes = defaultTagNMaxMetadataBytes
	}

	_, isRefFetcher := target.(registry.ReferenceFetcher)
	_, isRefPusher := target.(registry.ReferencePusher)
	if isRefFetcher && isRefPusher {
		if repo, ok := target.(interfaces.ReferenceParser); ok {
			// add scope hints to minimize the number of auth requests
			ref, err := repo.ParseReference(srcReference)
			if err != nil {
				return ocispec.Descriptor{}, err
			}
			ctx = auth.AppendRepositoryScope(ctx, ref, auth.ActionPull, auth.ActionPush)
		}

		desc, contentBytes, err := FetchBytes(ctx, target, srcReference, FetchBytesOptions{
			MaxBytes: opts.MaxMetadataBytes,
		})
		if err != nil {
			if errors.Is(err, errdef.ErrSizeExceedsLimit) {
				err = fmt.Errorf(
					"content size %v exceeds MaxMetadataBytes %v: %w",
					desc.Size,
					opts.MaxMetadataBytes,
					errdef.ErrSizeExceedsLimit)
			}
			return ocispec.Descriptor{}, err
		}

		if err := tagBytesN(ctx, target, desc, contentBytes, dstReferences, TagBytesNOptions{
			Concurrency: opts.Concurrency,
		}); err != nil {
			return ocispec.Descriptor{}, err
		}
		return desc, nil
	}

	desc, err := target.Resolve(ctx, srcReference)
	if err != nil {
		return ocispec.Descriptor{}, err
	}
	eg, egCtx := syncutil.LimitGroup(ctx, opts.Concurrency)
	for _, dstRef := range dstReferences {
		eg.Go(func(dst string) func() error {
			return func() error {
				if err := target.Tag(egCtx, desc, dst); err != nil {
					return fmt.Errorf("failed to tag %s as %s: %w", srcReference, dst, err)
				}
				return nil
			}
		}(dstRef))
	}

	if err := eg.Wait(); err != nil {
		return ocispec.Descriptor{}, err
	}
	return desc, nil
}

// Tag tags the descriptor identified by src with dst.
func Tag(ctx context.Context, target Target, src, dst string) (ocispec.Descriptor, error) {
	refFetcher, okFetch := target.(registry.ReferenceFetcher)
	refPusher, okPush := target.(registry.ReferencePusher)
	if okFetch && okPush {
		if repo, ok := target.(interfaces.ReferenceParser); ok {
			// add scope hints to minimize the number of auth requests
			ref, err := repo.ParseReference(src)
			if err != nil {
				return ocispec.Descriptor{}, err
			}
			ctx = auth.AppendRepositoryScope(ctx, ref, auth.ActionPull, auth.ActionPush)
		}
		desc, rc, err := refFetcher.FetchReference(ctx, src)
		if err != nil {
			return ocispec.Descriptor{}, err
		}
		defer rc.Close()
		if err := refPusher.PushReference(ctx, desc, rc, dst); err != nil {
			return ocispec.Descriptor{}, err
		}
		return desc, nil
	}

	desc, err := target.Resolve(ctx, src)
	if err != nil {
		return ocispec.Descriptor{}, err
	}
	if err := target.Tag(ctx, desc, dst); err != nil {
		return ocispec.Descriptor{}, err
	}
	return desc, nil
}

// DefaultResolveOptions provides the default ResolveOptions.
var DefaultResolveOptions ResolveOptions

// ResolveOptions contains parameters for [oras.Resolve].
type ResolveOptions struct {
	// TargetPlatform ensures the resolved content matches the target platform
	// if the node is a manifest, or selects the first resolved content that
	// matches the target platform if the node is a manifest list.
	TargetPlatform *ocispec.Platform

	// MaxMetadataBytes limits the maximum size of metadata that can be cached
	// in the memory.
	// If less than or equal to 0, a default (currently 4 MiB) is used.
	MaxMetadataBytes int64
}

// Resolve resolves a descriptor with provided reference from the target.
func Resolve(ctx context.Context, target ReadOnlyTarget, reference string, opts ResolveOptions) (ocispec.Descriptor, error) {
	if opts.TargetPlatform == nil {
		return target.Resolve(ctx, reference)
	}
	return resolve(ctx, target, nil, reference, opts)
}

// resolve resolves a descriptor with provided reference from the target, with
// specified caching.
func resolve(ctx context.Context, target ReadOnlyTarget, proxy *cas.Proxy, reference string, opts ResolveOptions) (ocispec.Descriptor, error) {
	if opts.MaxMetadataBytes <= 0 {
		opts.MaxMetadataBytes = defaultResolveMaxMetadataBytes
	}

	if refFetcher, ok := target.(registry.ReferenceFetcher); ok {
		// optimize performance for ReferenceFetcher targets
		desc, rc, err := refFetcher.FetchReference(ctx, reference)
		if err != nil {
			return ocispec.Descriptor{}, err
		}
		defer rc.Close()

		switch desc.MediaType {
		case docker.MediaTypeManifestList, ocispec.MediaTypeImageIndex,
			docker.MediaTypeManifest, ocispec.MediaTypeImageManifest:
			// cache the fetched content
			if desc.Size > opts.MaxMetadataBytes {
				return ocispec.Descriptor{}, fmt.Errorf(
					"content size %v exceeds MaxMetadataBytes %v: %w",
					desc.Size,
					opts.MaxMetadataBytes,
					errdef.ErrSizeExceedsLimit)
			}
			if proxy == nil {
				proxy = cas.NewProxyWithLimit(target, cas.NewMemory(), opts.MaxMetadataBytes)
			}
			if err := proxy.Cache.Push(ctx, desc, rc); err != nil {
				return ocispec.Descriptor{}, err
			}
			// stop caching as SelectManifest may fetch a config blob
			proxy.StopCaching = true
			return platform.SelectManifest(ctx, proxy, desc, opts.TargetPlatform)
		default:
			return ocispec.Descriptor{}, fmt.Errorf("%s: %s: %w", desc.Digest, desc.MediaType, errdef.ErrUnsupported)
		}
	}

	desc, err := target.Resolve(ctx, reference)
	if err != nil {
		return ocispec.Descriptor{}, err
	}
	return platform.SelectManifest(ctx, target, desc, opts.TargetPlatform)
}

// DefaultFetchOptions provides the default FetchOptions.
var DefaultFetchOptions FetchOptions

// FetchOptions contains parameters for [oras.Fetch].
type FetchOptions struct {
	// ResolveOptions contains parameters for resolving reference.
	ResolveOptions
}

// Fetch fetches the content identified by the reference.
func Fetch(ctx context.Context, target ReadOnlyTarget, reference string, opts FetchOptions) (ocispec.Descriptor, io.ReadCloser, error) {
	if opts.TargetPlatform == nil {
		if refFetcher, ok := target.(registry.ReferenceFetcher); ok {
			return refFetcher.FetchReference(ctx, reference)
		}

		desc, err := target.Resolve(ctx, reference)
		if err != nil {
			return ocispec.Descriptor{}, nil, err
		}
		rc, err := target.Fetch(ctx, desc)
		if err != nil {
			return ocispec.Descriptor{}, nil, err
		}
		return desc, rc, nil
	}

	if opts.MaxMetadataBytes <= 0 {
		opts.MaxMetadataBytes = defaultResolveMaxMetadataBytes
	}
	proxy := cas.NewProxyWithLimit(target, cas.NewMemory(), opts.MaxMetadataBytes)
	desc, err := resolve(ctx, target, proxy, reference, opts.ResolveOptions)
	if err != nil {
		return ocispec.Descriptor{}, nil, err
	}
	// if the content exists in cache, fetch it from cache
	// otherwise fetch without caching
	proxy.StopCaching = true
	rc, err := proxy.Fetch(ctx, desc)
	if err != nil {
		return ocispec.Descriptor{}, nil, err
	}
	return desc, rc, nil
}

// DefaultFetchBytesOptions provides the default FetchBytesOptions.
var DefaultFetchBytesOptions FetchBytesOptions

// FetchBytesOptions contains parameters for [oras.FetchBytes].
type FetchBytesOptions struct {
	// FetchOptions contains parameters for fetching content.
	FetchOptions
	// MaxBytes limits the maximum size of the fetched content bytes.
	// If less than or equal to 0, a default (currently 4 MiB) is used.
	MaxBytes int64
}

// FetchBytes fetches the content bytes identified by the reference.
func FetchBytes(ctx context.Context, target ReadOnlyTarget, reference string, opts FetchBytesOptions) (ocispec.Descriptor, []byte, error) {
	if opts.MaxBytes <= 0 {
		opts.MaxBytes = defaultMaxBytes
	}

	desc, rc, err := Fetch(ctx, target, reference, opts.FetchOptions)
	if err != nil {
		return ocispec.Descriptor{}, nil, err
	}
	defer rc.Close()

	if desc.Size > opts.MaxBytes {
		return ocispec.Descriptor{}, nil, fmt.Errorf(
			"content size %v exceeds MaxBytes %v: %w",
			desc.Size,
			opts.MaxBytes,
			errdef.ErrSizeExceedsLimit)
	}
	bytes, err := content.ReadAll(rc, desc)
	if err != nil {
		return ocispec.Descriptor{}, nil, err
	}

	return desc, bytes, nil
}

// PushBytes describes the contentBytes using the given mediaType and pushes it.
// If mediaType is not specified, "application/octet-stream" is used.
func PushBytes(ctx context.Context, pusher content.Pusher, mediaType string, contentBytes []byte) (ocispec.Descriptor, error) {
	desc := content.NewDescriptorFromBytes(mediaType, contentBytes)
	r := bytes.NewReader(contentBytes)
	if err := pusher.Push(ctx, desc, r); err != nil {
		return ocispec.Descriptor{}, err
	}

	return desc, nil
}

// DefaultTagBytesNOptions provides the default TagBytesNOptions.
var DefaultTagBytesNOptions TagBytesNOptions

// TagBytesNOptions contains parameters for [oras.TagBytesN].
type TagBytesNOptions struct {
	// Concurrency limits the maximum number of concurrent tag tasks.
	// If less than or equal to 0, a default (currently 5) is used.
	Concurrency int
}

// TagBytesN describes the contentBytes using the given mediaType, pushes it,
// and tag it with the given references.
// If mediaType is not specified, "application/octet-stream" is used.
func TagBytesN(ctx context.Context, target Target, mediaType string, contentBytes []byte, references []string, opts TagBytesNOptions) (ocispec.Descriptor, error) {
	if len(references) == 0 {
		return PushBytes(ctx, target, mediaType, contentBytes)
	}

	desc := content.NewDescriptorFromBytes(mediaType, contentBytes)
	if opts.Concurrency <= 0 {
		opts.Concurrency = defaultTagConcurrency
	}

	if err := tagBytesN(ctx, target, desc, contentBytes, references, opts); err != nil {
		return ocispec.Descriptor{}, err
	}
	return desc, nil
}

// tagBytesN pushes the contentBytes using the given desc, and tag it with the
// given references.
func tagBytesN(ctx context.Context, target Target, desc ocispec.Descriptor, contentBytes []byte, references []string, opts TagBytesNOptions) error {
	eg, egCtx := syncutil.LimitGroup(ctx, opts.Concurrency)
	if refPusher, ok := target.(registry.ReferencePusher); ok {
		for _, reference := range references {
			eg.Go(func(ref string) func() error {
				return func() error {
					r := bytes.NewReader(contentBytes)
					if err := refPusher.PushReference(egCtx, desc, r, ref); err != nil && !errors.Is(err, errdef.ErrAlreadyExists) {
						return fmt.Errorf("failed to tag %s: %w", ref, err)
					}
					return nil
				}
			}(reference))
		}
	} else {
		r := bytes.NewReader(contentBytes)
		if err := target.Push(ctx, desc, r); err != nil && !errors.Is(err, errdef.ErrAlreadyExists) {
			return fmt.Errorf("failed to push content: %w", err)
		}
		for _, reference := range references {
			eg.Go(func(ref string) func() error {
				return func() error {
					if err := target.Tag(egCtx, desc, ref); err != nil {
						return fmt.Errorf("failed to tag %s: %w", ref, err)
					}
					return nil
				}
			}(reference))
		}
	}

	return eg.Wait()
}

// TagBytes describes the contentBytes using the given mediaType, pushes it,
// and tag it with the given reference.
// If mediaType is not specified, "application/octet-stream" is used.
func TagBytes(ctx context.Context, target Target, mediaType string, contentBytes []byte, reference string) (ocispec.Descriptor, error) {
	return TagBytesN(ctx, target, mediaType, contentBytes, []string{reference}, DefaultTagBytesNOptions)
}
