/*
Copyright The ORAS Authors.
Licensed under the Apache License, Version 2.0 (the "License");
you may not use this file except in compliance with the License.
You may obtain a copy of the License at

http://www.apache.org/licenses/LICENSE-2.0

Unless required by applicable law or agreed to in writing, software
distributed under the License is distributed on an "AS IS" BASIS,
WITHOUT WARRANTIES OR CONDITIONS OF ANY KIND, either express or implied.
See the License for the specific language governing permissions and
limitations under the License.
*/

package oras

import (
	"bytes"
	"context"
	"encoding/json"
	"errors"
	"fmt"
	"maps"
	"regexp"
	"time"

	specs "github.com/opencontainers/image-spec/specs-go"
	ocispec "github.com/opencontainers/image-spec/specs-go/v1"
	"oras.land/oras-go/v2/content"
	"oras.land/oras-go/v2/errdef"
	"oras.land/oras-go/v2/internal/spec"
)

const (
	// MediaTypeUnknownConfig is the default config mediaType used
	//   - for [Pack] when PackOptions.PackImageManifest is true and
	//     PackOptions.ConfigDescriptor is not specified.
	//   - for [PackManifest] when packManifestVersion is PackManifestVersion1_0
	//     and PackManifestOptions.ConfigDescriptor is not specified.
	MediaTypeUnknownConfig = "application/vnd.unknown.config.v1+json"

	// MediaTypeUnknownArtifact is the default artifactType used for [Pack]
	// when PackOptions.PackImageManifest is false and artifactType is
	// not specified.
	MediaTypeUnknownArtifact = "application/vnd.unknown.artifact.v1"
)

var (
	// ErrInvalidDateTimeFormat is returned by [Pack] and [PackManifest] when
	// "org.opencontainers.artifact.created" or "org.opencontainers.image.created"
	// is provided, but its value is not in RFC 3339 format.
	// Reference: https://www.rfc-editor.org/rfc/rfc3339#section-5.6
	ErrInvalidDateTimeFormat = errors.New("invalid date and time format")

	// ErrMissingArtifactType is returned by [PackManifest] when
	// packManifestVersion is PackManifestVersion1_1 and artifactType is
	// empty and the config media type is set to
	// "application/vnd.oci.empty.v1+json".
	ErrMissingArtifactType = errors.New("missing artifact type")
)

// PackManifestVersion represents the manifest version used for [PackManifest].
type PackManifestVersion int

const (
	// PackManifestVersion1_0 represents the OCI Image Manifest defined in
	// image-spec v1.0.2.
	// Reference: https://github.com/opencontainers/image-spec/blob/v1.0.2/manifest.md
	PackManifestVersion1_0 PackManifestVersion = 1

	// PackManifestVersion1_1_RC4 represents the OCI Image Manifest defined
	// in image-spec v1.1.0-rc4.
	// Reference: https://github.com/opencontainers/image-spec/blob/v1.1.0-rc4/manifest.md
	//
	// Deprecated: This constant is deprecated and not recommended for future use.
	// Use [PackManifestVersion1_1] instead.
	PackManifestVersion1_1_RC4 PackManifestVersion = PackManifestVersion1_1

	// PackManifestVersion1_1 represents the OCI Image Manifest defined in
	// image-spec v1.1.1.
	// Reference: https://github.com/opencontainers/image-spec/blob/v1.1.1/manifest.md
	PackManifestVersion1_1 PackManifestVersion = 2
)

// PackManifestOptions contains optional parameters for [PackManifest].
type PackManifestOptions struct {
	// Subject is the subject of the manifest.
	// This option is only valid when PackManifestVersion is
	// NOT PackManifestVersion1_0.
	Subject *ocispec.Descriptor

	// Layers is the layers of the manifest.
	Layers []ocispec.Descriptor

	// ManifestAnnotations is the annotation map of the manifest. In order to
	// make [PackManifest] reproducible, set the key ocispec.AnnotationCreated
	// (i.e. "org.opencontainers.image.created") to a fixed value. The value
	// must conform to RFC 3339.
	ManifestAnnotations map[string]string

	// ConfigDescriptor is a pointer to the descriptor of the config blob.
	// If not nil, ConfigAnnotations will be ignored.
	ConfigDescriptor *ocispec.Descriptor

	// ConfigAnnotations is the annotation map of the config descriptor.
	// This option is valid only when ConfigDescriptor is nil.
	ConfigAnnotations map[string]string
}

// mediaTypeRegexp checks the format of media types.
// References:
//   - https://github.com/opencontainers/image-spec/blob/v1.1.1/schema/defs-descriptor.json#L7
//   - https://datatracker.ietf.org/doc/html/rfc6838#section-4.2
var mediaTypeRegexp = regexp.MustCompile(`^[A-Za-z0-9][A-Za-z0-9!#$&^_.+-]{0,126}/[A-Za-z0-9][A-Za-z0-9!#$&^_.+-]{0,126}$`)

// PackManifest generates an OCI Image Manifest based on the given parameters
// and pushes the packed manifest to a content storage using pusher. The version
// of the manifest to be packed is determined by packManifestVersion
// (Recommended value: PackManifestVersion1_1).
//
//   - If packManifestVersion is [PackManifestVersion1_1]:
//     artifactType MUST NOT be empty unless opts.ConfigDescriptor is specified.
//   - If packManifestVersion is [PackManifestVersion1_0]:
//     if opts.ConfigDescriptor is nil, artifactType will be used as the
//     config media type; if artifactType is empty,
//     "application/vnd.unknown.config.v1+json" will be used.
//     if opts.ConfigDescriptor is NOT nil, artifactType will be ignored.
//
// artifactType and opts.ConfigDescriptor.MediaType MUST comply with RFC 6838.
//
// Each time when PackManifest is called, if a time stamp is not specified, a new time
// stamp is generated in the manifest annotations with the key ocispec.AnnotationCreated
// (i.e. "org.opencontainers.image.created"). To make [PackManifest] reproducible,
// set the key ocispec.AnnotationCreated to a fixed value in
// opts.ManifestAnnotations. The value MUST conform to RFC 3339.
//
// If succeeded, returns a descriptor of the packed manifest.
func PackManifest(ctx context.Context, pusher content.Pusher, packManifestVersion PackManifestVersion, artifactType string, opts PackManifestOptions) (ocispec.Descriptor, error) {
	switch packManifestVersion {
	case PackManifestVersion1_0:
		return packManifestV1_0(ctx, pusher, artifactType, opts)
	case PackManifestVersion1_1:
		return packManifestV1_1(ctx, pusher, artifactType, opts)
	default:
		return ocispec.Descriptor{}, fmt.Errorf("PackManifestVersion(%v): %w", packManifestVersion, errdef.ErrUnsupported)
	}
}

// PackOptions contains optional parameters for [Pack].
//
// Deprecated: This type is deprecated and not recommended for future use.
// Use [PackManifestOptions] instead.
type PackOptions struct {
	// Subject is the subject of the manifest.
	Subject *ocispec.Descriptor

	// ManifestAnnotations is the annotation map of the manifest.
	ManifestAnnotations map[string]string

	// PackImageManifest controls whether to pack an OCI Image Manifest or not.
	//   - If true, pack an OCI Image Manifest.
	//   - If false, pack an OCI Artifact Manifest (deprecated).
	//
	// Default value: false.
	PackImageManifest bool

	// ConfigDescriptor is a pointer to the descriptor of the config blob.
	// If not nil, artifactType will be implied by the mediaType of the
	// specified ConfigDescriptor, and ConfigAnnotations will be ignored.
	// This option is valid only when PackImageManifest is true.
	ConfigDescriptor *ocispec.Descriptor

	// ConfigAnnotations is the annotation map of the config descriptor.
	// This option is valid only when PackImageManifest is true
	// and ConfigDescriptor is nil.
	ConfigAnnotations map[string]string
}

// Pack packs the given blobs, generates a manifest for the pack,
// and pushes it to a content storage.
//
// When opts.PackImageManifest is true, artifactType will be used as the
// the config descriptor mediaType of the image manifest.
//
// If succeeded, returns a descriptor of the manifest.
//
// Deprecated: This method is deprecated and not recommended for future use.
// Use [PackManifest] instead.
func Pack(ctx context.Context, pusher content.Pusher, artifactType string, blobs []ocispec.Descriptor, opts PackOptions) (ocispec.Descriptor, error) {
	if opts.PackImageManifest {
		return packManifestV1_1_RC2(ctx, pusher, artifactType, blobs, opts)
	}
	return packArtifact(ctx, pusher, artifactType, blobs, opts)
}

// packArtifact packs an Artifact manifest as defined in image-spec v1.1.0-rc2.
// Reference: https://github.com/opencontainers/image-spec/blob/v1.1.0-rc2/artifact.md
func packArtifact(ctx context.Context, pusher content.Pusher, artifactType string, blobs []ocispec.Descriptor, opts PackOptions) (ocispec.Descriptor, error) {
	if artifactType == "" {
		artifactType = MediaTypeUnknownArtifact
	}

	annotations, err := ensureAnnotationCreated(opts.ManifestAnnotations, spec.AnnotationArtifactCreated)
	if err != nil {
		return ocispec.Descriptor{}, err
	}
	manifest := spec.Artifact{
		MediaType:    spec.MediaTypeArtifactManifest,
		ArtifactType: artifactType,
		Blobs:        blobs,
		Subject:      opts.Subject,
		Annotations:  annotations,
	}
	return pushManifest(ctx, pusher, manifest, manifest.MediaType, manifest.ArtifactType, manifest.Annotations)
}

// packManifestV1_0 packs an image manifest defined in image-spec v1.0.2.
// Reference: https://github.com/opencontainers/image-spec/blob/v1.0.2/manifest.md
func packManifestV1_0(ctx context.Context, pusher content.Pusher, artifactType string, opts PackManifestOptions) (ocispec.Descriptor, error) {
	if opts.Subject != nil {
		return ocispec.Descriptor{}, fmt.Errorf("subject is not supported for manifest version %v: %w", PackManifestVersion1_0, errdef.ErrUnsupported)
	}

	// prepare config
	var configDesc ocispec.Descriptor
	if opts.ConfigDescriptor != nil {
		if err := validateMediaType(opts.ConfigDescriptor.MediaType); err != nil {
			return ocispec.Descriptor{}, fmt.Errorf("invalid config mediaType format: %w", err)
		}
		configDesc = *opts.ConfigDescriptor
	} else {
		if artifactType == "" {
			artifactType = MediaTypeUnknownConfig
		} else if err := validateMediaType(artifactType); err != nil {
			return ocispec.Descriptor{}, fmt.Errorf("invalid artifactType format: %w", err)
		}
		var err error
		configDesc, err = pushCustomEmptyConfig(ctx, pusher, artifactType, opts.ConfigAnnotations)
		if err != nil {
			return ocispec.Descriptor{}, err
		}
	}

	annotations, err := ensureAnnotationCreated(opts.ManifestAnnotations, ocispec.AnnotationCreated)
	if err != nil {
		return ocispec.Descriptor{}, err
	}
	if opts.Layers == nil {
		opts.Layers = []ocispec.Descriptor{} // make it an empty array to prevent potential server-side bugs
	}
	manifest := ocispec.Manifest{
		Versioned: specs.Versioned{
			SchemaVersion: 2, // historical value. does not pertain to OCI or docker version
		},
		Config:      configDesc,
		MediaType:   ocispec.MediaTypeImageManifest,
		Layers:      opts.Layers,
		Annotations: annotations,
	}
	return pushManifest(ctx, pusher, manifest, manifest.MediaType, manifest.Config.MediaType, manifest.Annotations)
}

// packManifestV1_1_RC2 packs an image manifest as defined in image-spec
// v1.1.0-rc2.
// Reference: https://github.com/opencontainers/image-spec/blob/v1.1.0-rc2/manifest.md
func packManifestV1_1_RC2(ctx context.Context, pusher content.Pusher, configMediaType string, layers []ocispec.Descriptor, opts PackOptions) (ocispec.Descriptor, error) {
	if configMediaType == "" {
		configMediaType = MediaTypeUnknownConfig
	}

	// prepare config
	var configDesc ocispec.Descriptor
	if opts.ConfigDescriptor != nil {
		configDesc = *opts.ConfigDescriptor
	} else {
		var err error
		configDesc, err = pushCustomEmptyConfig(ctx, pusher, configMediaType, opts.ConfigAnnotations)
		if err != nil {
			return ocispec.Descriptor{}, err
		}
	}

	annotations, err := ensureAnnotationCreated(opts.ManifestAnnotations, ocispec.AnnotationCreated)
	if err != nil {
		return ocispec.Descriptor{}, err
	}
	if layers == nil {
		layers = []ocispec.Descriptor{} // make it an empty array to prevent potential server-side bugs
	}
	manifest := ocispec.Manifest{
		Versioned: specs.Versioned{
			SchemaVersion: 2, // historical value. does not pertain to OCI or docker version
		},
		Config:      configDesc,
		MediaType:   ocispec.MediaTypeImageManifest,
		Layers:      layers,
		Subject:     opts.Subject,
		Annotations: annotations,
	}
	return pushManifest(ctx, pusher, manifest, manifest.MediaType, manifest.Config.MediaType, manifest.Annotations)
}

// packManifestV1_1 packs an image manifest defined in image-spec v1.1.1.
// Reference: https://github.com/opencontainers/image-spec/blob/v1.1.1/manifest.md#guidelines-for-artifact-usage
func packManifestV1_1(ctx context.Context, pusher content.Pusher, artifactType string, opts PackManifestOptions) (ocispec.Descriptor, error) {
	if artifactType == "" && (opts.ConfigDescriptor == nil || opts.ConfigDescriptor.MediaType == ocispec.MediaTypeEmptyJSON) {
		// artifactType MUST be set when config.mediaType is set to the empty value
		return ocispec.Descriptor{}, ErrMissingArtifactType
	}
	if artifactType != "" {
		if err := validateMediaType(artifactType); err != nil {
			return ocispec.Descriptor{}, fmt.Errorf("invalid artifactType format: %w", err)
		}
	}

	// prepare config
	var emptyBlobExists bool
	var configDesc ocispec.Descriptor
	if opts.ConfigDescriptor != nil {
		if err := validateMediaType(opts.ConfigDescriptor.MediaType); err != nil {
			return ocispec.Descriptor{}, fmt.Errorf("invalid config mediaType format: %w", err)
		}
		configDesc = *opts.ConfigDescriptor
	} else {
		// use the empty descriptor for config
		configDesc = ocispec.DescriptorEmptyJSON
		configDesc.Annotations = opts.ConfigAnnotations
		configBytes := ocispec.DescriptorEmptyJSON.Data
		// push config
		if err := pushIfNotExist(ctx, pusher, configDesc, configBytes); err != nil {
			return ocispec.Descriptor{}, fmt.Errorf("failed to push config: %w", err)
		}
		emptyBlobExists = true
	}

	annotations, err := ensureAnnotationCreated(opts.ManifestAnnotations, ocispec.AnnotationCreated)
	if err != nil {
		return ocispec.Descriptor{}, err
	}
	if len(opts.Layers) == 0 {
		// use the empty descriptor as the single layer
		layerDesc := ocispec.DescriptorEmptyJSON
		layerData := ocispec.DescriptorEmptyJSON.Data
		if !emptyBlobExists {
			if err := pushIfNotExist(ctx, pusher, layerDesc, layerData); err != nil {
				return ocispec.Descriptor{}, fmt.Errorf("failed to push layer: %w", err)
			}
		}
		opts.Layers = []ocispec.Descriptor{layerDesc}
	}

	manifest := ocispec.Manifest{
		Versioned: specs.Versioned{
			SchemaVersion: 2, // historical value. does not pertain to OCI or docker version
		},
		Config:       configDesc,
		MediaType:    ocispec.MediaTypeImageManifest,
		Layers:       opts.Layers,
		Subject:      opts.Subject,
		ArtifactType: artifactType,
		Annotations:  annotations,
	}
	return pushManifest(ctx, pusher, manifest, manifest.MediaType, manifest.ArtifactType, manifest.Annotations)
}

// pushIfNotExist pushes data described by desc if it does not exist in the
// target.
func pushIfNotExist(ctx context.Context, pusher content.Pusher, desc ocispec.Descriptor, data []byte) error {
	if ros, ok := pusher.(content.ReadOnlyStorage); ok {
		exists, err := ros.Exists(ctx, desc)
		if err != nil {
			return fmt.Errorf("failed to check existence: %s: %s: %w", desc.Digest.String(), desc.MediaType, err)
		}
		if exists {
			return nil
		}
	}

	if err := pusher.Push(ctx, desc, bytes.NewReader(data)); err != nil && !errors.Is(err, errdef.ErrAlreadyExists) {
		return fmt.Errorf("failed to push: %s: %s: %w", desc.Digest.String(), desc.MediaType, err)
	}
	return nil
}

// pushManifest marshals manifest into JSON bytes and pushes it.
func pushManifest(ctx context.Context, pusher content.Pusher, manifest any, mediaType string, artifactType string, annotations map[string]string) (ocispec.Descriptor, error) {
	manifestJSON, err := json.Marshal(manifest)
	if err != nil {
		return ocispec.Descriptor{}, fmt.Errorf("failed to marshal manifest: %w", err)
	}
	manifestDesc := content.NewDescriptorFromBytes(mediaType, manifestJSON)
	// populate ArtifactType and Annotations of the manifest into manifestDesc
	manifestDesc.ArtifactType = artifactType
	manifestDesc.Annotations = annotations
	// push manifest
	if err := pusher.Push(ctx, manifestDesc, bytes.NewReader(manifestJSON)); err != nil && !errors.Is(err, errdef.ErrAlreadyExists) {
		return ocispec.Descriptor{}, fmt.Errorf("failed to push manifest: %w", err)
	}
	return manifestDesc, nil
}

// pushCustomEmptyConfig generates and pushes an empty config blob.
func pushCustomEmptyConfig(ctx context.Context, pusher content.Pusher, mediaType string, annotations map[string]string) (ocispec.Descriptor, error) {
	// Use an empty JSON object here, because some registries may not accept
	// empty config blob.
	// As of September 2022, GAR is known to return 400 on empty blob upload.
	// See https://github.com/oras-project/oras-go/issues/294 for details.
	configBytes := []byte("{}")
	configDesc := content.NewDescriptorFromBytes(mediaType, configBytes)
	configDesc.Annotations = annotations
	// push config
	if err := pushIfNotExist(ctx, pusher, configDesc, configBytes); err != nil {
		return ocispec.Descriptor{}, fmt.Errorf("failed to push config: %w", err)
	}
	return configDesc, nil
}

// ensureAnnotationCreated ensures that annotationCreatedKey is in annotations,
// and that its value conforms to RFC 3339. Otherwise returns a new annotation
// map with annotationCreatedKey created.
func ensureAnnotationCreated(annotations map[string]string, annotationCreatedKey string) (map[string]string, error) {
	if createdTime, ok := annotations[annotationCreatedKey]; ok {
		// if annotationCreatedKey is provided, validate its format
		if _, err := time.Parse(time.RFC3339, createdTime); err != nil {
			return nil, fmt.Errorf("%w: %v", ErrInvalidDateTimeFormat, err)
		}
		return annotations, nil
	}

	// copy the original annotation map
	copied := make(map[string]string, len(annotations)+1)
	maps.Copy(copied, annotations)

	// set creation time in RFC 3339 format
	// reference: https://github.com/opencontainers/image-spec/blob/v1.1.0-rc2/annotations.md#pre-defined-annotation-keys
	now := time.Now().UTC()
	copied[annotationCreatedKey] = now.Format(time.RFC3339)
	return copied, nil
}

// validateMediaType validates the format of mediaType.
func validateMediaType(mediaType string) error {
	if !mediaTypeRegexp.MatchString(mediaType) {
		return fmt.Errorf("%s: %w", mediaType, errdef.ErrInvalidMediaType)
	}
	return nil
}
