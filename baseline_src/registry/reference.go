/*
Copyright The ORAS Authors.
Licensed under the Apache License, Version 2.0 (the "License");
you may not use this file except in compliance with the License.
You may obtain a copy of the License at

http://www.apache.org/licenses/LICENSE-2.0

Unless required by applicable law or agreed to in writing, software
distributed under the License is distributed on an "AS IS" BASIS,
WITHOUT WARRANTIES OR CONDITIONS OF ANY KIND, either express or implied.
See the License for the specific language governing permissions and
limitations under the License.
*/

package registry

import (
	"fmt"
	"net/url"
	"regexp"
	"strings"

	"github.com/opencontainers/go-digest"
	"oras.land/oras-go/v2/errdef"
)

// regular expressions for components.
var (
	// repositoryRegexp is adapted from the distribution implementation. The
	// repository name set under OCI distribution spec is a subset of the docker
	// spec. For maximum compatability, the docker spec is verified client-side.
	// Further checks are left to the server-side.
	//
	// References:
	//   - https://github.com/distribution/distribution/blob/v2.7.1/reference/regexp.go#L53
	//   - https://github.com/opencontainers/distribution-spec/blob/v1.1.1/spec.md#pulling-manifests
	repositoryRegexp = regexp.MustCompile(`^[a-z0-9]+(?:(?:[._]|__|[-]*)[a-z0-9]+)*(?:/[a-z0-9]+(?:(?:[._]|__|[-]*)[a-z0-9]+)*)*$`)

	// tagRegexp checks the tag name.
	// The docker and OCI spec have the same regular expression.
	//
	// Reference: https://github.com/opencontainers/distribution-spec/blob/v1.1.1/spec.md#pulling-manifests
	tagRegexp = regexp.MustCompile(`^[\w][\w.-]{0,127}$`)
)

// Reference references either a resource descriptor (where Reference.Reference
// is a tag or a digest), or a resource repository (where Reference.Reference
// is the empty string).
type Reference struct {
	// Registry is the name of the registry. It is usually the domain name of
	// the registry optionally with a port.
	Registry string

	// Repository is the name of the repository.
	Repository string

	// Reference is the reference of the object in the repository. This field
	// can take any one of the four valid forms (see ParseReference). In the
	// case where it's the empty string, it necessarily implies valid form D,
	// and where it is non-empty, then it is either a tag, or a digest
	// (implying one of valid forms A, B, or C).
	Reference string
}

// ParseReference parses a string (artifact) into an `artifact reference`.
// Corresponding cryptographic hash implementations are required to be imported
// as specified by https://pkg.go.dev/github.com/opencontainers/go-digest#readme-usage
// if the string contains a digest.
//
// Note: An "image" is an "artifact", however, an "artifact" is not necessarily
// an "image".
//
// The token `artifact` is composed of other tokens, and those in turn are
// composed of others.  This definition recursivity requires a notation capable
// of recursion, thus the following two forms have been adopted:
//
//  1. Backus–Naur Form (BNF) has been adopted to address the recursive nature
//     of the definition.
//  2. Token opacity is revealed via its label letter-casing.  That is, "opaque"
//     tokens (i.e., tokens that are not final, and must therefore be further
//     broken down into their constituents) are denoted in *lowercase*, while
//     final tokens (i.e., leaf-node tokens that are final) are denoted in
//     *uppercase*.
//
// Finally, note that a number of the opaque tokens are polymorphic in nature;
// that is, they can take on one of numerous forms, not restricted to a single
// defining form.
//
// The top-level token, `artifact`, is composed of two (opaque) tokens; namely
// `socketaddr` and `path`:
//
//	<artifact> ::= <socketaddr> "/" <path>
//
// The former is described as follows:
//
//	   <socketaddr> ::= <host> | <host> ":" <PORT>
//		     <host> ::= <ip> | <FQDN>
//		       <ip> ::= <IPV4-ADDR> | <IPV6-ADDR>
//
// The latter, which is of greater interest here, is described as follows:
//
//	     <path> ::= <REPOSITORY> | <REPOSITORY> <reference>
//	<reference> ::= "@" <digest> | ":" <TAG> "@" <DIGEST> | ":" <TAG>
//	   <digest> ::= <ALGO> ":" <HASH>
//
// This second token--`path`--can take on exactly four forms, each of which will
// now be illustrated:
//
//	<--- path --------------------------------------------> |  - Decode `path`
//	<=== REPOSITORY ===> <--- reference ------------------> |    - Decode `reference`
//	<=== REPOSITORY ===> @ <=================== digest ===> |      - Valid Form A
//	<=== REPOSITORY ===> : <!!! TAG !!!> @ <=== digest ===> |      - Valid Form B (tag is dropped)
//	<=== REPOSITORY ===> : <=== TAG ======================> |      - Valid Form C
//	<=== REPOSITORY ======================================> |    - Valid Form D
//
// Note: In the case of Valid Form B, TAG is dropped without any validation or
// further consideration.
func ParseReference(artifact string) (Reference, error) {
	parts := strings.SplitN(artifact, "/", 2)
	if len(parts) == 1 {
		// Invalid Form
		return Reference{}, fmt.Errorf("%w: missing registry or repository", errdef.ErrInvalidReference)
	}
	registry, path := parts[0], parts[1]

	var isTag bool
	var repository string
	var reference string
	if index := strings.Index(path, "@"); index != -1 {
		// `digest` found; Valid Form A (if not B)
		isTag = false
		repository = path[:index]
		reference = path[index+1:]

		if index = strings.Index(repository, ":"); index != -1 {
			// `tag` found (and now dropped without validation) since `the
			// `digest` already present; Valid Form B
			repository = repository[:index]
		}
	} else if index = strings.Index(path, ":"); index != -1 {
		// `tag` found; Valid Form C
		isTag = true
		repository = path[:index]
		reference = path[index+1:]
	} else {
		// empty `reference`; Valid Form D
		repository = path
	}
	ref := Reference{
		Registry:   registry,
		Repository: repository,
		Reference:  reference,
	}

	if err := ref.ValidateRegistry(); err != nil {
		return Reference{}, err
	}

	if err := ref.ValidateRepository(); err != nil {
		return Reference{}, err
	}

	if len(ref.Reference) == 0 {
		return ref, nil
	}

	validator := ref.ValidateReferenceAsDigest
	if isTag {
		validator = ref.ValidateReferenceAsTag
	}
	if err := validator(); err != nil {
		return Reference{}, err
	}

	return ref, nil
}

// Validate the entire reference object; the registry, the repository, and the
// reference.
func (r Reference) Validate() error {
	if err := r.ValidateRegistry(); err != nil {
		return err
	}

	if err := r.ValidateRepository(); err != nil {
		return err
	}

	return r.ValidateReference()
}

// ValidateRegistry validates the registry.
func (r Reference) ValidateRegistry() error {
	if uri, err := url.ParseRequestURI("dummy://" + r.Registry); err != nil || uri.Host == "" || uri.Host != r.Registry {
		return fmt.Errorf("%w: invalid registry %q", errdef.ErrInvalidReference, r.Registry)
	}
	return nil
}

// ValidateRepository validates the repository.
func (r Reference) ValidateRepository() error {
	if !repositoryRegexp.MatchString(r.Repository) {
		return fmt.Errorf("%w: invalid repository %q", errdef.ErrInvalidReference, r.Repository)
	}
	return nil
}

// ValidateReferenceAsTag validates the reference as a tag.
func (r Reference) ValidateReferenceAsTag() error {
	if !tagRegexp.MatchString(r.Reference) {
		return fmt.Errorf("%w: invalid tag %q", errdef.ErrInvalidReference, r.Reference)
	}
	return nil
}

// ValidateReferenceAsDigest validates the reference as a digest.
func (r Reference) ValidateReferenceAsDigest() error {
	if _, err := r.Digest(); err != nil {
		return fmt.Errorf("%w: invalid digest %q: %v", errdef.ErrInvalidReference, r.Reference, err)
	}
	return nil
}

// ValidateReference where the reference is first tried as an ampty string, then
// as a digest, and if that fails, as a tag.
func (r Reference) ValidateReference() error {
	if len(r.Reference) == 0 {
		return nil
	}

	if index := strings.IndexByte(r.Reference, ':'); index != -1 {
		return r.ValidateReferenceAsDigest()
	}

	return r.ValidateReferenceAsTag()
}

// Host returns the host name of the registry.
func (r Reference) Host() string {
	if r.Registry == "docker.io" {
		return "registry-1.docker.io"
	}
	return r.Registry
}

// ReferenceOrDefault returns the reference or the default reference if empty.
func (r Reference) ReferenceOrDefault() string {
	if r.Reference == "" {
		return "latest"
	}
	return r.Reference
}

// Digest returns the reference as a digest.
// Corresponding cryptographic hash implementations are required to be imported
// as specified by https://pkg.go.dev/github.com/opencontainers/go-digest#readme-usage
func (r Reference) Digest() (digest.Digest, error) {
	return digest.Parse(r.Reference)
}

// String implements `fmt.Stringer` and returns the reference string.
// The resulted string is meaningful only if the reference is valid.
func (r Reference) String() string {
	if r.Repository == "" {
		return r.Registry
	}
	ref := r.Registry + "/" + r.Repository
	if r.Reference == "" {
		return ref
	}
	if d, err := r.Digest(); err == nil {
		return ref + "@" + d.String()
	}
	return ref + ":" + r.Reference
}
