/*
Copyright The ORAS Authors.
Licensed under the Apache License, Version 2.0 (the "License");
you may not use this file except in compliance with the License.
You may obtain a copy of the License at

http://www.apache.org/licenses/LICENSE-2.0

Unless required by applicable law or agreed to in writing, software
distributed under the License is distributed on an "AS IS" BASIS,
WITHOUT WARRANTIES OR CONDITIONS OF ANY KIND, either express or implied.
See the License for the specific language governing permissions and
limitations under the License.
*/

package auth

import (
	"context"
	"slices"
	"strings"

	"oras.land/oras-go/v2/registry"
)

// Actions used in scopes.
// Reference: https://docs.docker.com/registry/spec/auth/scope/
const (
	// ActionPull represents generic read access for resources of the repository
	// type.
	ActionPull = "pull"

	// ActionPush represents generic write access for resources of the
	// repository type.
	ActionPush = "push"

	// ActionDelete represents the delete permission for resources of the
	// repository type.
	ActionDelete = "delete"
)

// ScopeRegistryCatalog is the scope for registry catalog access.
const ScopeRegistryCatalog = "registry:catalog:*"

// ScopeRepository returns a repository scope with given actions.
// Reference: https://docs.docker.com/registry/spec/auth/scope/
func ScopeRepository(repository string, actions ...string) string {
	actions = cleanActions(actions)
	if repository == "" || len(actions) == 0 {
		return ""
	}
	return strings.Join([]string{
		"repository",
		repository,
		strings.Join(actions, ","),
	}, ":")
}

// AppendRepositoryScope returns a new context containing scope hints for the
// auth client to fetch bearer tokens with the given actions on the repository.
// If called multiple times, the new scopes will be appended to the existing
// scopes. The resulted scopes are de-duplicated.
//
// For example, uploading blob to the repository "hello-world" does HEAD request
// first then POST and PUT. The HEAD request will return a challenge for scope
// `repository:hello-world:pull`, and the auth client will fetch a token for
// that challenge. Later, the POST request will return a challenge for scope
// `repository:hello-world:push`, and the auth client will fetch a token for
// that challenge again. By invoking AppendRepositoryScope with the actions
// [ActionPull] and [ActionPush] for the repository `hello-world`,
// the auth client with cache is hinted to fetch a token via a single token
// fetch request for all the HEAD, POST, PUT requests.
func AppendRepositoryScope(ctx context.Context, ref registry.Reference, actions ...string) context.Context {
	if len(actions) == 0 {
		return ctx
	}
	scope := ScopeRepository(ref.Repository, actions...)
	return AppendScopesForHost(ctx, ref.Host(), scope)
}

// scopesContextKey is the context key for scopes.
type scopesContextKey struct{}

// WithScopes returns a context with scopes added. Scopes are de-duplicated.
// Scopes are used as hints for the auth client to fetch bearer tokens with
// larger scopes.
//
// For example, uploading blob to the repository "hello-world" does HEAD request
// first then POST and PUT. The HEAD request will return a challenge for scope
// `repository:hello-world:pull`, and the auth client will fetch a token for
// that challenge. Later, the POST request will return a challenge for scope
// `repository:hello-world:push`, and the auth client will fetch a token for
// that challenge again. By invoking WithScopes with the scope
// `repository:hello-world:pull,push`, the auth client with cache is hinted to
// fetch a token via a single token fetch request for all the HEAD, POST, PUT
// requests.
//
// Passing an empty list of scopes will virtually remove the scope hints in the
// context.
//
// Reference: https://docs.docker.com/registry/spec/auth/scope/
func WithScopes(ctx context.Context, scopes ...string) context.Context {
	scopes = CleanScopes(scopes)
	return context.WithValue(ctx, scopesContextKey{}, scopes)
}

// AppendScopes appends additional scopes to the existing scopes in the context
// and returns a new context. The resulted scopes are de-duplicated.
// The append operation does modify the existing scope in the context passed in.
func AppendScopes(ctx context.Context, scopes ...string) context.Context {
	if len(scopes) == 0 {
		return ctx
	}
	return WithScopes(ctx, append(GetScopes(ctx), scopes...)...)
}

// GetScopes returns the scopes in the context.
func GetScopes(ctx context.Context) []string {
	if scopes, ok := ctx.Value(scopesContextKey{}).([]string); ok {
		return slices.Clone(scopes)
	}
	return nil
}

// scopesForHostContextKey is the context key for per-host scopes.
type scopesForHostContextKey string

// WithScopesForHost returns a context with per-host scopes added.
// Scopes are de-duplicated.
// Scopes are used as hints for the auth client to fetch bearer tokens with
// larger scopes.
//
// For example, uploading blob to the repository "hello-world" does HEAD request
// first then POST and PUT. The HEAD request will return a challenge for scope
// `repository:hello-world:pull`, and the auth client will fetch a token for
// that challenge. Later, the POST request will return a challenge for scope
// `repository:hello-world:push`, and the auth client will fetch a token for
// that challenge again. By invoking WithScopesForHost with the scope
// `repository:hello-world:pull,push`, the auth client with cache is hinted to
// fetch a token via a single token fetch request for all the HEAD, POST, PUT
// requests.
//
// Passing an empty list of scopes will virtually remove the scope hints in the
// context for the given host.
//
// Reference: https://docs.docker.com/registry/spec/auth/scope/
func WithScopesForHost(ctx context.Context, host string, scopes ...string) context.Context {
	scopes = CleanScopes(scopes)
	return context.WithValue(ctx, scopesForHostContextKey(host), scopes)
}

// AppendScopesForHost appends additional scopes to the existing scopes
// in the context for the given host and returns a new context.
// The resulted scopes are de-duplicated.
// The append operation does modify the existing scope in the context passed in.
func AppendScopesForHost(ctx context.Context, host string, scopes ...string) context.Context {
	if len(scopes) == 0 {
		return ctx
	}
	oldScopes := GetScopesForHost(ctx, host)
	return WithScopesForHost(ctx, host, append(oldScopes, scopes...)...)
}

// GetScopesForHost returns the scopes in the context for the given host,
// excluding global scopes added by [WithScopes] and [AppendScopes].
func GetScopesForHost(ctx context.Context, host string) []string {
	if scopes, ok := ctx.Value(scopesForHostContextKey(host)).([]string); ok {
		return slices.Clone(scopes)
	}
	return nil
}

// GetAllScopesForHost returns the scopes in the context for the given host,
// including global scopes added by [WithScopes] and [AppendScopes].
func GetAllScopesForHost(ctx context.Context, host string) []string {
	scopes := GetScopesForHost(ctx, host)
	globalScopes := GetScopes(ctx)

	if len(scopes) == 0 {
		return globalScopes
	}
	if len(globalScopes) == 0 {
		return scopes
	}
	// re-clean the scopes
	allScopes := append(scopes, globalScopes...)
	return CleanScopes(allScopes)
}

// CleanScopes merges and sort the actions in ascending order if the scopes have
// the same resource type and name. The final scopes are sorted in ascending
// order. In other words, the scopes passed in are de-duplicated and sorted.
// Therefore, the output of this function is deterministic.
//
// If there is a wildcard `*` in the action, other actions in the same resource
// type and name are ignored.
func CleanScopes(scopes []string) []string {
	// fast paths
	switch len(scopes) {
	case 0:
		return nil
	case 1:
		scope := scopes[0]
		i := strings.LastIndex(scope, ":")
		if i == -1 {
			return []string{scope}
		}
		actionList := strings.Split(scope[i+1:], ",")
		actionList = cleanActions(actionList)
		if len(actionList) == 0 {
			return nil
		}
		actions := strings.Join(actionList, ",")
		scope = scope[:i+1] + actions
		return []string{scope}
	}

	// slow path
	var result []string

	// merge recognizable scopes
	resourceTypes := make(map[string]map[string]map[string]struct{})
	for _, scope := range scopes {
		// extract resource type
		i := strings.Index(scope, ":")
		if i == -1 {
			result = append(result, scope)
			continue
		}
		resourceType := scope[:i]

		// extract resource name and actions
		rest := scope[i+1:]
		i = strings.LastIndex(rest, ":")
		if i == -1 {
			result = append(result, scope)
			continue
		}
		resourceName := rest[:i]
		actions := rest[i+1:]
		if actions == "" {
			// drop scope since no action found
			continue
		}

		// add to the intermediate map for de-duplication
		namedActions := resourceTypes[resourceType]
		if namedActions == nil {
			namedActions = make(map[string]map[string]struct{})
			resourceTypes[resourceType] = namedActions
		}
		actionSet := namedActions[resourceName]
		if actionSet == nil {
			actionSet = make(map[string]struct{})
			namedActions[resourceName] = actionSet
		}
		for _, action := range strings.Split(actions, ",") {
			if action != "" {
				actionSet[action] = struct{}{}
			}
		}
	}

	// reconstruct scopes
	for resourceType, namedActions := range resourceTypes {
		for resourceName, actionSet := range namedActions {
			if len(actionSet) == 0 {
				continue
			}
			var actions []string
			for action := range actionSet {
				if action == "*" {
					actions = []string{"*"}
					break
				}
				actions = append(actions, action)
			}
			slices.Sort(actions)
			scope := resourceType + ":" + resourceName + ":" + strings.Join(actions, ",")
			result = append(result, scope)
		}
	}

	// sort and return
	slices.Sort(result)
	return result
}

// cleanActions removes the duplicated actions and sort in ascending order.
// If there is a wildcard `*` in the action, other actions are ignored.
func cleanActions(actions []string) []string {
	// fast paths
	switch len(actions) {
	case 0:
		return nil
	case 1:
		if actions[0] == "" {
			return nil
		}
		return actions
	}

	// slow path
	slices.Sort(actions)
	n := 0
	for i := range len(actions) {
		if actions[i] == "*" {
			return []string{"*"}
		}
		if actions[i] != actions[n] {
			n++
			if n != i {
				actions[n] = actions[i]
			}
		}
	}
	n++
	if actions[0] == "" {
		if n == 1 {
			return nil
		}
		return actions[1:n]
	}
	return actions[:n]
}
