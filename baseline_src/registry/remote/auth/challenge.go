/*
Copyright The ORAS Authors.
Licensed under the Apache License, Version 2.0 (the "License");
you may not use this file except in compliance with the License.
You may obtain a copy of the License at

http://www.apache.org/licenses/LICENSE-2.0

Unless required by applicable law or agreed to in writing, software
distributed under the License is distributed on an "AS IS" BASIS,
WITHOUT WARRANTIES OR CONDITIONS OF ANY KIND, either express or implied.
See the License for the specific language governing permissions and
limitations under the License.
*/

package auth

import (
	"strconv"
	"strings"
)

// Scheme define the authentication method.
type Scheme byte

const (
	// SchemeUnknown represents unknown or unsupported schemes
	SchemeUnknown Scheme = iota

	// SchemeBasic represents the "Basic" HTTP authentication scheme.
	// Reference: https://tools.ietf.org/html/rfc7617
	SchemeBasic

	// SchemeBearer represents the Bearer token in OAuth 2.0.
	// Reference: https://tools.ietf.org/html/rfc6750
	SchemeBearer
)

// parseScheme parse the authentication scheme from the given string
// case-insensitively.
func parseScheme(scheme string) Scheme {
	switch {
	case strings.EqualFold(scheme, "basic"):
		return SchemeBasic
	case strings.EqualFold(scheme, "bearer"):
		return SchemeBearer
	}
	return SchemeUnknown
}

// String return the string for the scheme.
func (s Scheme) String() string {
	switch s {
	case SchemeBasic:
		return "Basic"
	case SchemeBearer:
		return "Bearer"
	}
	return "Unknown"
}

// parseChallenge parses the "WWW-Authenticate" header returned by the remote
// registry, and extracts parameters if scheme is Bearer.
// References:
// - https://docs.docker.com/registry/spec/auth/token/#how-to-authenticate
// - https://tools.ietf.org/html/rfc7235#section-2.1
func parseChallenge(header string) (scheme Scheme, params map[string]string) {
	// as defined in RFC 7235 section 2.1, we have
	//     challenge   = auth-scheme [ 1*SP ( token68 / #auth-param ) ]
	//     auth-scheme = token
	//     auth-param  = token BWS "=" BWS ( token / quoted-string )
	//
	// since we focus parameters only on Bearer, we have
	//     challenge   = auth-scheme [ 1*SP #auth-param ]
	schemeString, rest := parseToken(header)
	scheme = parseScheme(schemeString)

	// fast path for non bearer challenge
	if scheme != SchemeBearer {
		return
	}

	// parse params for bearer auth.
	// combining RFC 7235 section 2.1 with RFC 7230 section 7, we have
	//     #auth-param => auth-param *( OWS "," OWS auth-param )
	var key, value string
	for {
		key, rest = parseToken(skipSpace(rest))
		if key == "" {
			return
		}

		rest = skipSpace(rest)
		if rest == "" || rest[0] != '=' {
			return
		}
		rest = skipSpace(rest[1:])
		if rest == "" {
			return
		}

		if rest[0] == '"' {
			prefix, err := strconv.QuotedPrefix(rest)
			if err != nil {
				return
			}
			value, err = strconv.Unquote(prefix)
			if err != nil {
				return
			}
			rest = rest[len(prefix):]
		} else {
			value, rest = parseToken(rest)
			if value == "" {
				return
			}
		}
		if params == nil {
			params = map[string]string{
				key: value,
			}
		} else {
			params[key] = value
		}

		rest = skipSpace(rest)
		if rest == "" || rest[0] != ',' {
			return
		}
		rest = rest[1:]
	}
}

// isNotTokenChar reports whether rune is not a `tchar` defined in RFC 7230
// section 3.2.6.
func isNotTokenChar(r rune) bool {
	// tchar = "!" / "#" / "$" / "%" / "&" / "'" / "*"
	//       / "+" / "-" / "." / "^" / "_" / "`" / "|" / "~"
	//       / DIGIT / ALPHA
	//       ; any VCHAR, except delimiters
	return (r < 'A' || r > 'Z') && (r < 'a' || r > 'z') &&
		(r < '0' || r > '9') && !strings.ContainsRune("!#$%&'*+-.^_`|~", r)
}

// parseToken finds the next token from the given string. If no token found,
// an empty token is returned and the whole of the input is returned in rest.
// Note: Since token = 1*tchar, empty string is not a valid token.
func parseToken(s string) (token, rest string) {
	if i := strings.IndexFunc(s, isNotTokenChar); i != -1 {
		return s[:i], s[i:]
	}
	return s, ""
}

// skipSpace skips "bad" whitespace (BWS) defined in RFC 7230 section 3.2.3.
func skipSpace(s string) string {
	// OWS = *( SP / HTAB )
	//     ; optional whitespace
	// BWS = OWS
	//     ; "bad" whitespace
	if i := strings.IndexFunc(s, func(r rune) bool {
		return r != ' ' && r != '\t'
	}); i != -1 {
		return s[i:]
	}
	return s
}
