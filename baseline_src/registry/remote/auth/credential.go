/*
Copyright The ORAS Authors.
Licensed under the Apache License, Version 2.0 (the "License");
you may not use this file except in compliance with the License.
You may obtain a copy of the License at

http://www.apache.org/licenses/LICENSE-2.0

Unless required by applicable law or agreed to in writing, software
distributed under the License is distributed on an "AS IS" BASIS,
WITHOUT WARRANTIES OR CONDITIONS OF ANY KIND, either express or implied.
See the License for the specific language governing permissions and
limitations under the License.
*/

package auth

// EmptyCredential represents an empty credential.
var EmptyCredential Credential

// Credential contains authentication credentials used to access remote
// registries.
type Credential struct {
	// Username is the name of the user for the remote registry.
	Username string

	// Password is the secret associated with the username.
	Password string

	// RefreshToken is a bearer token to be sent to the authorization service
	// for fetching access tokens.
	// A refresh token is often referred as an identity token.
	// Reference: https://docs.docker.com/registry/spec/auth/oauth/
	RefreshToken string

	// AccessToken is a bearer token to be sent to the registry.
	// An access token is often referred as a registry token.
	// Reference: https://docs.docker.com/registry/spec/auth/token/
	AccessToken string
}
