/*
Copyright The ORAS Authors.
Licensed under the Apache License, Version 2.0 (the "License");
you may not use this file except in compliance with the License.
You may obtain a copy of the License at

http://www.apache.org/licenses/LICENSE-2.0

Unless required by applicable law or agreed to in writing, software
distributed under the License is distributed on an "AS IS" BASIS,
WITHOUT WARRANTIES OR CONDITIONS OF ANY KIND, either express or implied.
See the License for the specific language governing permissions and
limitations under the License.
*/

// Package auth provides authentication for a client to a remote registry.
package auth

import (
	"context"
	"encoding/base64"
	"encoding/json"
	"errors"
	"fmt"
	"io"
	"net/http"
	"net/url"
	"strings"

	"oras.land/oras-go/v2/registry/remote/internal/errutil"
	"oras.land/oras-go/v2/registry/remote/retry"
)

// ErrBasicCredentialNotFound is returned  when the credential is not found for
// basic auth.
var ErrBasicCredentialNotFound = errors.New("basic credential not found")

// DefaultClient is the default auth-decorated client.
var DefaultClient = &Client{
	Client: retry.DefaultClient,
	Header: http.Header{
		"User-Agent": {"oras-go"},
	},
	Cache: DefaultCache,
}

// maxResponseBytes specifies the default limit on how many response bytes are
// allowed in the server's response from authorization service servers.
// A typical response message from authorization service servers is around 1 to
// 4 KiB. Since the size of a token must be smaller than the HTTP header size
// limit, which is usually 16 KiB. As specified by the distribution, the
// response may contain 2 identical tokens, that is, 16 x 2 = 32 KiB.
// Hence, 128 KiB should be sufficient.
// References: https://docs.docker.com/registry/spec/auth/token/
var maxResponseBytes int64 = 128 * 1024 // 128 KiB

// defaultClientID specifies the default client ID used in OAuth2.
// See also ClientID.
var defaultClientID = "oras-go"

// CredentialFunc represents a function that resolves the credential for the
// given registry (i.e. host:port).
//
// [EmptyCredential] is a valid return value and should not be considered as
// an error.
type CredentialFunc func(ctx context.Context, hostport string) (Credential, error)

// StaticCredential specifies static credentials for the given host.
func StaticCredential(registry string, cred Credential) CredentialFunc {
	if registry == "docker.io" {
		// it is expected that traffic targeting "docker.io" will be redirected
		// to "registry-1.docker.io"
		// reference: https://github.com/moby/moby/blob/v24.0.0-beta.2/registry/config.go#L25-L48
		registry = "registry-1.docker.io"
	}
	return func(_ context.Context, hostport string) (Credential, error) {
		if hostport == registry {
			return cred, nil
		}
		return EmptyCredential, nil
	}
}

// Client is an auth-decorated HTTP client.
// Its zero value is a usable client that uses http.DefaultClient with no cache.
type Client struct {
	// Client is the underlying HTTP client used to access the remote
	// server.
	// If nil, http.DefaultClient is used.
	// It is possible to use the default retry client from the package
	// `oras.land/oras-go/v2/registry/remote/retry`. That client is already available
	// in the DefaultClient.
	// It is also possible to use a custom client. For example, github.com/hashicorp/go-retryablehttp
	// is a popular HTTP client that supports retries.
	Client *http.Client

	// Header contains the custom headers to be added to each request.
	Header http.Header

	// Credential specifies the function for resolving the credential for the
	// given registry (i.e. host:port).
	// EmptyCredential is a valid return value and should not be considered as
	// an error.
	// If nil, the credential is always resolved to EmptyCredential.
	Credential CredentialFunc

	// Cache caches credentials for direct accessing the remote registry.
	// If nil, no cache is used.
	Cache Cache

	// ClientID used in fetching OAuth2 token as a required field.
	// If empty, a default client ID is used.
	// Reference: https://docs.docker.com/registry/spec/auth/oauth/#getting-a-token
	ClientID string

	// ForceAttemptOAuth2 controls whether to follow OAuth2 with password grant
	// instead the distribution spec when authenticating using username and
	// password.
	// References:
	// - https://docs.docker.com/registry/spec/auth/jwt/
	// - https://docs.docker.com/registry/spec/auth/oauth/
	ForceAttemptOAuth2 bool
}

// client returns an HTTP client used to access the remote registry.
// http.DefaultClient is return if the client is not configured.
func (c *Client) client() *http.Client {
	if c.Client == nil {
		return http.DefaultClient
	}
	return c.Client
}

// send adds headers to the request and sends the request to the remote server.
func (c *Client) send(req *http.Request) (*http.Response, error) {
	for key, values := range c.Header {
		req.Header[key] = append(req.Header[key], values...)
	}
	return c.client().Do(req)
}

// credential resolves the credential for the given registry.
func (c *Client) credential(ctx context.Context, reg string) (Credential, error) {
	if c.Credential == nil {
		return EmptyCredential, nil
	}
	return c.Credential(ctx, reg)
}

// cache resolves the cache.
// noCache is return if the cache is not configured.
func (c *Client) cache() Cache {
	if c.Cache == nil {
		return noCache{}
	}
	return c.Cache
}

// SetUserAgent sets the user agent for all out-going requests.
func (c *Client) SetUserAgent(userAgent string) {
	if c.Header == nil {
		c.Header = http.Header{}
	}
	c.Header.Set("User-Agent", userAgent)
}

// Do sends the request to the remote server, attempting to resolve
// authentication if 'Authorization' header is not set.
//
// On authentication failure due to bad credential,
//   - Do returns error if it fails to fetch token for bearer auth.
//   - Do returns the registry response without error for basic auth.
func (c *Client) Do(originalReq *http.Request) (*http.Response, error) {
	if auth := originalReq.Header.Get("Authorization"); auth != "" {
		return c.send(originalReq)
	}

	ctx := originalReq.Context()
	req := originalReq.Clone(ctx)

	// attempt cached auth token
	var attemptedKey string
	cache := c.cache()
	host := originalReq.Host
	scheme, err := cache.GetScheme(ctx, host)
	if err == nil {
		switch scheme {
		case SchemeBasic:
			token, err := cache.GetToken(ctx, host, SchemeBasic, "")
			if err == nil {
				req.Header.Set("Authorization", "Basic "+token)
			}
		case SchemeBearer:
			scopes := GetAllScopesForHost(ctx, host)
			attemptedKey = strings.Join(scopes, " ")
			token, err := cache.GetToken(ctx, host, SchemeBearer, attemptedKey)
			if err == nil {
				req.Header.Set("Authorization", "Bearer "+token)
			}
		}
	}

	resp, err := c.send(req)
	if err != nil {
		return nil, err
	}
	if resp.StatusCode != http.StatusUnauthorized {
		return resp, nil
	}

	// attempt again with credentials for recognized schemes
	challenge := resp.Header.Get("Www-Authenticate")
	scheme, params := parseChallenge(challenge)
	switch scheme {
	case SchemeBasic:
		resp.Body.Close()

		token, err := cache.Set(ctx, host, SchemeBasic, "", func(ctx context.Context) (string, error) {
			return c.fetchBasicAuth(ctx, host)
		})
		if err != nil {
			return nil, fmt.Errorf("%s %q: %w", resp.Request.Method, resp.Request.URL, err)
		}

		req = originalReq.Clone(ctx)
		req.Header.Set("Authorization", "Basic "+token)
	case SchemeBearer:
		resp.Body.Close()

		scopes := GetAllScopesForHost(ctx, host)
		if paramScope := params["scope"]; paramScope != "" {
			// merge hinted scopes with challenged scopes
			scopes = append(scopes, strings.Split(paramScope, " ")...)
			scopes = CleanScopes(scopes)
		}
		key := strings.Join(scopes, " ")

		// attempt the cache again if there is a scope change
		if key != attemptedKey {
			if token, err := cache.GetToken(ctx, host, SchemeBearer, key); err == nil {
				req = originalReq.Clone(ctx)
				req.Header.Set("Authorization", "Bearer "+token)
				if err := rewindRequestBody(req); err != nil {
					return nil, err
				}

				resp, err := c.send(req)
				if err != nil {
					return nil, err
				}
				if resp.StatusCode != http.StatusUnauthorized {
					return resp, nil
				}
				resp.Body.Close()
			}
		}

		// attempt with credentials
		realm := params["realm"]
		service := params["service"]
		token, err := cache.Set(ctx, host, SchemeBearer, key, func(ctx context.Context) (string, error) {
			return c.fetchBearerToken(ctx, host, realm, service, scopes)
		})
		if err != nil {
			return nil, fmt.Errorf("%s %q: %w", resp.Request.Method, resp.Request.URL, err)
		}

		req = originalReq.Clone(ctx)
		req.Header.Set("Authorization", "Bearer "+token)
	default:
		return resp, nil
	}
	if err := rewindRequestBody(req); err != nil {
		return nil, err
	}

	return c.send(req)
}

// fetchBasicAuth fetches a basic auth token for the basic challenge.
func (c *Client) fetchBasicAuth(ctx context.Context, registry string) (string, error) {
	cred, err := c.credential(ctx, registry)
	if err != nil {
		return "", fmt.Errorf("failed to resolve credential: %w", err)
	}
	if cred == EmptyCredential {
		return "", ErrBasicCredentialNotFound
	}
	if cred.Username == "" || cred.Password == "" {
		return "", errors.New("missing username or password for basic auth")
	}
	auth := cred.Username + ":" + cred.Password
	return base64.StdEncoding.EncodeToString([]byte(auth)), nil
}

// fetchBearerToken fetches an access token for the bearer challenge.
func (c *Client) fetchBearerToken(ctx context.Context, registry, realm, service string, scopes []string) (string, error) {
	cred, err := c.credential(ctx, registry)
	if err != nil {
		return "", err
	}
	if cred.AccessToken != "" {
		return cred.AccessToken, nil
	}
	if cred == EmptyCredential || (cred.RefreshToken == "" && !c.ForceAttemptOAuth2) {
		return c.fetchDistributionToken(ctx, realm, service, scopes, cred.Username, cred.Password)
	}
	return c.fetchOAuth2Token(ctx, realm, service, scopes, cred)
}

// fetchDistributionToken fetches an access token as defined by the distribution
// specification.
// It fetches anonymous tokens if no credential is provided.
// References:
// - https://docs.docker.com/registry/spec/auth/jwt/
// - https://docs.docker.com/registry/spec/auth/token/
func (c *Client) fetchDistributionToken(ctx context.Context, realm, service string, scopes []string, username, password string) (string, error) {
	req, err := http.NewRequestWithContext(ctx, http.MethodGet, realm, nil)
	if err != nil {
		return "", err
	}
	if username != "" || password != "" {
		req.SetBasicAuth(username, password)
	}
	q := req.URL.Query()
	if service != "" {
		q.Set("service", service)
	}
	for _, scope := range scopes {
		q.Add("scope", scope)
	}
	req.URL.RawQuery = q.Encode()

	resp, err := c.send(req)
	if err != nil {
		return "", err
	}
	defer resp.Body.Close()
	if resp.StatusCode != http.StatusOK {
		return "", errutil.ParseErrorResponse(resp)
	}

	// As specified in https://docs.docker.com/registry/spec/auth/token/ section
	// "Token Response Fields", the token is either in `token` or
	// `access_token`. If both present, they are identical.
	var result struct {
		Token       string `json:"token"`
		AccessToken string `json:"access_token"`
	}
	lr := io.LimitReader(resp.Body, maxResponseBytes)
	if err := json.NewDecoder(lr).Decode(&result); err != nil {
		return "", fmt.Errorf("%s %q: failed to decode response: %w", resp.Request.Method, resp.Request.URL, err)
	}
	if result.AccessToken != "" {
		return result.AccessToken, nil
	}
	if result.Token != "" {
		return result.Token, nil
	}
	return "", fmt.Errorf("%s %q: empty token returned", resp.Request.Method, resp.Request.URL)
}

// fetchOAuth2Token fetches an OAuth2 access token.
// Reference: https://docs.docker.com/registry/spec/auth/oauth/
func (c *Client) fetchOAuth2Token(ctx context.Context, realm, service string, scopes []string, cred Credential) (string, error) {
	form := url.Values{}
	if cred.RefreshToken != "" {
		form.Set("grant_type", "refresh_token")
		form.Set("refresh_token", cred.RefreshToken)
	} else if cred.Username != "" && cred.Password != "" {
		form.Set("grant_type", "password")
		form.Set("username", cred.Username)
		form.Set("password", cred.Password)
	} else {
		return "", errors.New("missing username or password for bearer auth")
	}
	form.Set("service", service)
	clientID := c.ClientID
	if clientID == "" {
		clientID = defaultClientID
	}
	form.Set("client_id", clientID)
	if len(scopes) != 0 {
		form.Set("scope", strings.Join(scopes, " "))
	}
	body := strings.NewReader(form.Encode())

	req, err := http.NewRequestWithContext(ctx, http.MethodPost, realm, body)
	if err != nil {
		return "", err
	}
	req.Header.Set("Content-Type", "application/x-www-form-urlencoded")

	resp, err := c.send(req)
	if err != nil {
		return "", err
	}
	defer resp.Body.Close()
	if resp.StatusCode != http.StatusOK {
		return "", errutil.ParseErrorResponse(resp)
	}

	var result struct {
		AccessToken string `json:"access_token"`
	}
	lr := io.LimitReader(resp.Body, maxResponseBytes)
	if err := json.NewDecoder(lr).Decode(&result); err != nil {
		return "", fmt.Errorf("%s %q: failed to decode response: %w", resp.Request.Method, resp.Request.URL, err)
	}
	if result.AccessToken != "" {
		return result.AccessToken, nil
	}
	return "", fmt.Errorf("%s %q: empty token returned", resp.Request.Method, resp.Request.URL)
}

// rewindRequestBody tries to rewind the request body if exists.
func rewindRequestBody(req *http.Request) error {
	if req.Body == nil || req.Body == http.NoBody {
		return nil
	}
	if req.GetBody == nil {
		return fmt.Errorf("%s %q: request body is not rewindable", req.Method, req.URL)
	}
	body, err := req.GetBody()
	if err != nil {
		return fmt.Errorf("%s %q: failed to get request body: %w", req.Method, req.URL, err)
	}
	req.Body = body
	return nil
}
