/*
Copyright The ORAS Authors.
Licensed under the Apache License, Version 2.0 (the "License");
you may not use this file except in compliance with the License.
You may obtain a copy of the License at

http://www.apache.org/licenses/LICENSE-2.0

Unless required by applicable law or agreed to in writing, software
distributed under the License is distributed on an "AS IS" BASIS,
WITHOUT WARRANTIES OR CONDITIONS OF ANY KIND, either express or implied.
See the License for the specific language governing permissions and
limitations under the License.
*/

package auth

import (
	"context"
	"strings"
	"sync"

	"oras.land/oras-go/v2/errdef"
	"oras.land/oras-go/v2/internal/syncutil"
)

// DefaultCache is the sharable cache used by DefaultClient.
var DefaultCache Cache = NewCache()

// Cache caches the auth-scheme and auth-token for the "Authorization" header in
// accessing the remote registry.
// Precisely, the header is `Authorization: auth-scheme auth-token`.
// The `auth-token` is a generic term as `token68` in RFC 7235 section 2.1.
type Cache interface {
	// GetScheme returns the auth-scheme part cached for the given registry.
	// A single registry is assumed to have a consistent scheme.
	// If a registry has different schemes per path, the auth client is still
	// workable. However, the cache may not be effective as the cache cannot
	// correctly guess the scheme.
	GetScheme(ctx context.Context, registry string) (Scheme, error)

	// GetToken returns the auth-token part cached for the given registry of a
	// given scheme.
	// The underlying implementation MAY cache the token for all schemes for the
	// given registry.
	GetToken(ctx context.Context, registry string, scheme Scheme, key string) (string, error)

	// Set fetches the token using the given fetch function and caches the token
	// for the given scheme with the given key for the given registry.
	// The return values of the fetch function is returned by this function.
	// The underlying implementation MAY combine the fetch operation if the Set
	// function is invoked multiple times at the same time.
	Set(ctx context.Context, registry string, scheme Scheme, key string, fetch func(context.Context) (string, error)) (string, error)
}

// cacheEntry is a cache entry for a single registry.
type cacheEntry struct {
	scheme Scheme
	tokens sync.Map // map[string]string
}

// concurrentCache is a cache suitable for concurrent invocation.
type concurrentCache struct {
	status sync.Map // map[string]*syncutil.Once
	cache  sync.Map // map[string]*cacheEntry
}

// NewCache creates a new go-routine safe cache instance.
func NewCache() Cache {
	return &concurrentCache{}
}

// GetScheme returns the auth-scheme part cached for the given registry.
func (cc *concurrentCache) GetScheme(ctx context.Context, registry string) (Scheme, error) {
	entry, ok := cc.cache.Load(registry)
	if !ok {
		return SchemeUnknown, errdef.ErrNotFound
	}
	return entry.(*cacheEntry).scheme, nil
}

// GetToken returns the auth-token part cached for the given registry of a given
// scheme.
func (cc *concurrentCache) GetToken(ctx context.Context, registry string, scheme Scheme, key string) (string, error) {
	entryValue, ok := cc.cache.Load(registry)
	if !ok {
		return "", errdef.ErrNotFound
	}
	entry := entryValue.(*cacheEntry)
	if entry.scheme != scheme {
		return "", errdef.ErrNotFound
	}
	if token, ok := entry.tokens.Load(key); ok {
		return token.(string), nil
	}
	return "", errdef.ErrNotFound
}

// Set fetches the token using the given fetch function and caches the token
// for the given scheme with the given key for the given registry.
// Set combines the fetch operation if the Set is invoked multiple times at the
// same time.
func (cc *concurrentCache) Set(ctx context.Context, registry string, scheme Scheme, key string, fetch func(context.Context) (string, error)) (string, error) {
	// fetch token
	statusKey := strings.Join([]string{
		registry,
		scheme.String(),
		key,
	}, " ")
	statusValue, _ := cc.status.LoadOrStore(statusKey, syncutil.NewOnce())
	fetchOnce := statusValue.(*syncutil.Once)
	fetchedFirst, result, err := fetchOnce.Do(ctx, func() (interface{}, error) {
		return fetch(ctx)
	})
	if fetchedFirst {
		cc.status.Delete(statusKey)
	}
	if err != nil {
		return "", err
	}
	token := result.(string)
	if !fetchedFirst {
		return token, nil
	}

	// cache token
	newEntry := &cacheEntry{
		scheme: scheme,
	}
	entryValue, exists := cc.cache.LoadOrStore(registry, newEntry)
	entry := entryValue.(*cacheEntry)
	if exists && entry.scheme != scheme {
		// there is a scheme change, which is not expected in most scenarios.
		// force invalidating all previous cache.
		entry = newEntry
		cc.cache.Store(registry, entry)
	}
	entry.tokens.Store(key, token)

	return token, nil
}

// noCache is a cache implementation that does not do cache at all.
type noCache struct{}

// GetScheme always returns not found error as it has no cache.
func (noCache) GetScheme(ctx context.Context, registry string) (Scheme, error) {
	return SchemeUnknown, errdef.ErrNotFound
}

// GetToken always returns not found error as it has no cache.
func (noCache) GetToken(ctx context.Context, registry string, scheme Scheme, key string) (string, error) {
	return "", errdef.ErrNotFound
}

// Set calls fetch directly without caching.
func (noCache) Set(ctx context.Context, registry string, scheme Scheme, key string, fetch func(context.Context) (string, error)) (string, error) {
	return fetch(ctx)
}

// hostCache is an auth cache that ignores scopes.  Uses only the registry's hostname to find a token.
type hostCache struct {
	Cache
}

// GetToken implements Cache.
func (c *hostCache) GetToken(ctx context.Context, registry string, scheme Scheme, key string) (string, error) {
	return c.Cache.GetToken(ctx, registry, scheme, "")
}

// Set implements Cache.
func (c *hostCache) Set(ctx context.Context, registry string, scheme Scheme, key string, fetch func(context.Context) (string, error)) (string, error) {
	return c.Cache.Set(ctx, registry, scheme, "", fetch)
}

// fallbackCache tries the primary cache then falls back to the secondary cache.
type fallbackCache struct {
	primary   Cache
	secondary Cache
}

// GetScheme implements Cache.
func (fc *fallbackCache) GetScheme(ctx context.Context, registry string) (Scheme, error) {
	scheme, err := fc.primary.GetScheme(ctx, registry)
	if err == nil {
		return scheme, nil
	}

	// fallback
	return fc.secondary.GetScheme(ctx, registry)
}

// GetToken implements Cache.
func (fc *fallbackCache) GetToken(ctx context.Context, registry string, scheme Scheme, key string) (string, error) {
	token, err := fc.primary.GetToken(ctx, registry, scheme, key)
	if err == nil {
		return token, nil
	}

	// fallback
	return fc.secondary.GetToken(ctx, registry, scheme, key)
}

// Set implements Cache.
func (fc *fallbackCache) Set(ctx context.Context, registry string, scheme Scheme, key string, fetch func(context.Context) (string, error)) (string, error) {
	token, err := fc.primary.Set(ctx, registry, scheme, key, fetch)
	if err != nil {
		return "", err
	}

	return fc.secondary.Set(ctx, registry, scheme, key, func(ctx context.Context) (string, error) {
		return token, nil
	})
}

// NewSingleContextCache creates a host-based cache for optimizing the auth flow for non-compliant registries.
// It is intended to be used in a single context, such as pulling from a single repository.
// This cache should not be shared.
//
// Note: [NewCache] should be used for compliant registries as it can be shared
// across context and will generally make less re-authentication requests.
func NewSingleContextCache() Cache {
	cache := NewCache()
	return &fallbackCache{
		primary: cache,
		// We can re-use the came concurrentCache here because the key space is different
		// (keys are always empty for the hostCache) so there is no collision.
		// Even if there is a collision it is not an issue.
		// Re-using saves a little memory.
		secondary: &hostCache{cache},
	}
}
