/*
Copyright The ORAS Authors.
Licensed under the Apache License, Version 2.0 (the "License");
you may not use this file except in compliance with the License.
You may obtain a copy of the License at

http://www.apache.org/licenses/LICENSE-2.0

Unless required by applicable law or agreed to in writing, software
distributed under the License is distributed on an "AS IS" BASIS,
WITHOUT WARRANTIES OR CONDITIONS OF ANY KIND, either express or implied.
See the License for the specific language governing permissions and
limitations under the License.
*/

package remote

import (
	"encoding/json"
	"errors"
	"fmt"
	"io"
	"net/http"
	"strings"

	ocispec "github.com/opencontainers/image-spec/specs-go/v1"
	"oras.land/oras-go/v2/content"
	"oras.land/oras-go/v2/errdef"
)

// defaultMaxMetadataBytes specifies the default limit on how many response
// bytes are allowed in the server's response to the metadata APIs.
// See also: Repository.MaxMetadataBytes
var defaultMaxMetadataBytes int64 = 4 * 1024 * 1024 // 4 MiB

// errNoLink is returned by parseLink() when no Link header is present.
var errNoLink = errors.New("no Link header in response")

// parseLink returns the URL of the response's "Link" header, if present.
func parseLink(resp *http.Response) (string, error) {
	link := resp.Header.Get("Link")
	if link == "" {
		return "", errNoLink
	}
	if link[0] != '<' {
		return "", fmt.Errorf("invalid next link %q: missing '<'", link)
	}
	if i := strings.IndexByte(link, '>'); i == -1 {
		return "", fmt.Errorf("invalid next link %q: missing '>'", link)
	} else {
		link = link[1:i]
	}

	linkURL, err := resp.Request.URL.Parse(link)
	if err != nil {
		return "", err
	}
	return linkURL.String(), nil
}

// limitReader returns a Reader that reads from r but stops with EOF after n
// bytes. If n is less than or equal to zero, defaultMaxMetadataBytes is used.
func limitReader(r io.Reader, n int64) io.Reader {
	if n <= 0 {
		n = defaultMaxMetadataBytes
	}
	return io.LimitReader(r, n)
}

// limitSize returns ErrSizeExceedsLimit if the size of desc exceeds the limit n.
// If n is less than or equal to zero, defaultMaxMetadataBytes is used.
func limitSize(desc ocispec.Descriptor, n int64) error {
	if n <= 0 {
		n = defaultMaxMetadataBytes
	}
	if desc.Size > n {
		return fmt.Errorf(
			"content size %v exceeds MaxMetadataBytes %v: %w",
			desc.Size,
			n,
			errdef.ErrSizeExceedsLimit)
	}
	return nil
}

// decodeJSON safely reads the JSON content described by desc, and
// decodes it into v.
func decodeJSON(r io.Reader, desc ocispec.Descriptor, v any) error {
	jsonBytes, err := content.ReadAll(r, desc)
	if err != nil {
		return err
	}
	return json.Unmarshal(jsonBytes, v)
}
