/*
Copyright The ORAS Authors.
Licensed under the Apache License, Version 2.0 (the "License");
you may not use this file except in compliance with the License.
You may obtain a copy of the License at

http://www.apache.org/licenses/LICENSE-2.0

Unless required by applicable law or agreed to in writing, software
distributed under the License is distributed on an "AS IS" BASIS,
WITHOUT WARRANTIES OR CONDITIONS OF ANY KIND, either express or implied.
See the License for the specific language governing permissions and
limitations under the License.
*/

package retry

import (
	"net/http"
	"time"
)

// DefaultClient is a client with the default retry policy.
var DefaultClient = NewClient()

// NewClient creates an HTTP client with the default retry policy.
func NewClient() *http.Client {
	return &http.Client{
		Transport: NewTransport(nil),
	}
}

// Transport is an HTTP transport with retry policy.
type Transport struct {
	// Base is the underlying HTTP transport to use.
	// If nil, http.DefaultTransport is used for round trips.
	Base http.RoundTripper

	// Policy returns a retry Policy to use for the request.
	// If nil, DefaultPolicy is used to determine if the request should be retried.
	Policy func() Policy
}

// NewTransport creates an HTTP Transport with the default retry policy.
func NewTransport(base http.RoundTripper) *Transport {
	return &Transport{
		Base: base,
	}
}

// RoundTrip executes a single HTTP transaction, returning a Response for the
// provided Request.
// It relies on the configured Policy to determine if the request should be
// retried and to backoff.
func (t *Transport) RoundTrip(req *http.Request) (*http.Response, error) {
	ctx := req.Context()
	policy := t.policy()
	attempt := 0
	for {
		resp, respErr := t.roundTrip(req)
		duration, err := policy.Retry(attempt, resp, respErr)
		if err != nil {
			if respErr == nil {
				resp.Body.Close()
			}
			return nil, err
		}
		if duration < 0 {
			return resp, respErr
		}

		// rewind the body if possible
		if req.Body != nil {
			if req.GetBody == nil {
				// body can't be rewound, so we can't retry
				return resp, respErr
			}
			body, err := req.GetBody()
			if err != nil {
				// failed to rewind the body, so we can't retry
				return resp, respErr
			}
			req.Body = body
		}

		// close the response body if needed
		if respErr == nil {
			resp.Body.Close()
		}

		timer := time.NewTimer(duration)
		select {
		case <-ctx.Done():
			timer.Stop()
			return nil, ctx.Err()
		case <-timer.C:
		}
		attempt++
	}
}

func (t *Transport) roundTrip(req *http.Request) (*http.Response, error) {
	if t.Base == nil {
		return http.DefaultTransport.RoundTrip(req)
	}
	return t.Base.RoundTrip(req)
}

func (t *Transport) policy() Policy {
	if t.Policy == nil {
		return DefaultPolicy
	}
	return t.Policy()
}
