/*
Copyright The ORAS Authors.
Licensed under the Apache License, Version 2.0 (the "License");
you may not use this file except in compliance with the License.
You may obtain a copy of the License at

http://www.apache.org/licenses/LICENSE-2.0

Unless required by applicable law or agreed to in writing, software
distributed under the License is distributed on an "AS IS" BASIS,
WITHOUT WARRANTIES OR CONDITIONS OF ANY KIND, either express or implied.
See the License for the specific language governing permissions and
limitations under the License.
*/

package retry

import (
	"hash/maphash"
	"math"
	"math/rand/v2"
	"net"
	"net/http"
	"strconv"
	"time"
)

// headerRetryAfter is the header key for Retry-After.
const headerRetryAfter = "Retry-After"

// DefaultPolicy is a policy with fine-tuned retry parameters.
// It uses an exponential backoff with jitter.
var DefaultPolicy Policy = &GenericPolicy{
	Retryable: DefaultPredicate,
	Backoff:   DefaultBackoff,
	MinWait:   200 * time.Millisecond,
	MaxWait:   3 * time.Second,
	MaxRetry:  5,
}

// DefaultPredicate is a predicate that retries on 5xx errors, 429 Too Many
// Requests, 408 Request Timeout and on network dial timeout.
var DefaultPredicate Predicate = func(resp *http.Response, err error) (bool, error) {
	if err != nil {
		// retry on Dial timeout
		if err, ok := err.(net.Error); ok && err.Timeout() {
			return true, nil
		}
		return false, err
	}

	if resp.StatusCode == http.StatusRequestTimeout || resp.StatusCode == http.StatusTooManyRequests {
		return true, nil
	}

	if resp.StatusCode == 0 || resp.StatusCode >= 500 {
		return true, nil
	}

	return false, nil
}

// DefaultBackoff is a backoff that uses an exponential backoff with jitter.
// It uses a base of 250ms, a factor of 2 and a jitter of 10%.
var DefaultBackoff Backoff = ExponentialBackoff(250*time.Millisecond, 2, 0.1)

// Policy is a retry policy.
type Policy interface {
	// Retry returns the duration to wait before retrying the request.
	// It returns a negative value if the request should not be retried.
	// The attempt is used to:
	//  - calculate the backoff duration, the default backoff is an exponential backoff.
	//  - determine if the request should be retried.
	// The attempt starts at 0 and should be less than MaxRetry for the request to
	// be retried.
	Retry(attempt int, resp *http.Response, err error) (time.Duration, error)
}

// Predicate is a function that returns true if the request should be retried.
type Predicate func(resp *http.Response, err error) (bool, error)

// Backoff is a function that returns the duration to wait before retrying the
// request. The attempt, is the next attempt number. The response is the
// response from the previous request.
type Backoff func(attempt int, resp *http.Response) time.Duration

// ExponentialBackoff returns a Backoff that uses an exponential backoff with
// jitter. The backoff is calculated as:
//
//	temp = backoff * factor ^ attempt
//	interval = temp * (1 - jitter) + rand.Int64N(2 * jitter * temp)
//
// The HTTP response is checked for a Retry-After header. If it is present, the
// value is used as the backoff duration.
func ExponentialBackoff(backoff time.Duration, factor, jitter float64) Backoff {
	return func(attempt int, resp *http.Response) time.Duration {
		var h maphash.Hash
		h.SetSeed(maphash.MakeSeed())
		rand := rand.New(rand.NewPCG(0, h.Sum64()))

		// check Retry-After
		if resp != nil && resp.StatusCode == http.StatusTooManyRequests {
			if v := resp.Header.Get(headerRetryAfter); v != "" {
				if retryAfter, _ := strconv.ParseInt(v, 10, 64); retryAfter > 0 {
					return time.Duration(retryAfter) * time.Second
				}
			}
		}

		// do exponential backoff with jitter
		temp := float64(backoff) * math.Pow(factor, float64(attempt))
		wait := time.Duration(temp * (1 - jitter))
		// rand.Int64N panics unless its argument is positive
		if n := int64(2 * jitter * temp); n > 0 {
			wait += time.Duration(rand.Int64N(n))
		}
		return wait
	}
}

// GenericPolicy is a generic retry policy.
type GenericPolicy struct {
	// Retryable is a predicate that returns true if the request should be
	// retried.
	Retryable Predicate

	// Backoff is a function that returns the duration to wait before retrying.
	Backoff Backoff

	// MinWait is the minimum duration to wait before retrying.
	MinWait time.Duration

	// MaxWait is the maximum duration to wait before retrying.
	MaxWait time.Duration

	// MaxRetry is the maximum number of retries.
	MaxRetry int
}

// Retry returns the duration to wait before retrying the request.
// It returns -1 if the request should not be retried.
func (p *GenericPolicy) Retry(attempt int, resp *http.Response, err error) (time.Duration, error) {
	if attempt >= p.MaxRetry {
		return -1, nil
	}
	if ok, err := p.Retryable(resp, err); err != nil {
		return -1, err
	} else if !ok {
		return -1, nil
	}
	backoff := p.Backoff(attempt, resp)
	if backoff < p.MinWait {
		backoff = p.MinWait
	}
	if backoff > p.MaxWait {
		backoff = p.MaxWait
	}
	return backoff, nil
}
