/*
Copyright The ORAS Authors.
Licensed under the Apache License, Version 2.0 (the "License");
you may not use this file except in compliance with the License.
You may obtain a copy of the License at

http://www.apache.org/licenses/LICENSE-2.0

Unless required by applicable law or agreed to in writing, software
distributed under the License is distributed on an "AS IS" BASIS,
WITHOUT WARRANTIES OR CONDITIONS OF ANY KIND, either express or implied.
See the License for the specific language governing permissions and
limitations under the License.
*/

package remote

import (
	"bytes"
	"context"
	"encoding/json"
	"errors"
	"fmt"
	"io"
	"mime"
	"net/http"
	"slices"
	"strconv"
	"strings"
	"sync"
	"sync/atomic"

	"github.com/opencontainers/go-digest"
	specs "github.com/opencontainers/image-spec/specs-go"
	ocispec "github.com/opencontainers/image-spec/specs-go/v1"
	"oras.land/oras-go/v2/content"
	"oras.land/oras-go/v2/errdef"
	"oras.land/oras-go/v2/internal/cas"
	"oras.land/oras-go/v2/internal/httputil"
	"oras.land/oras-go/v2/internal/ioutil"
	"oras.land/oras-go/v2/internal/spec"
	"oras.land/oras-go/v2/internal/syncutil"
	"oras.land/oras-go/v2/registry"
	"oras.land/oras-go/v2/registry/remote/auth"
	"oras.land/oras-go/v2/registry/remote/errcode"
	"oras.land/oras-go/v2/registry/remote/internal/errutil"
)

const (
	// headerDockerContentDigest is the "Docker-Content-Digest" header.
	// If present on the response, it contains the canonical digest of the
	// uploaded blob.
	//
	// References:
	//   - https://docs.docker.com/registry/spec/api/#digest-header
	//   - https://github.com/opencontainers/distribution-spec/blob/v1.1.1/spec.md#pull
	headerDockerContentDigest = "Docker-Content-Digest"

	// headerOCIFiltersApplied is the "OCI-Filters-Applied" header.
	// If present on the response, it contains a comma-separated list of the
	// applied filters.
	//
	// Reference:
	//   - https://github.com/opencontainers/distribution-spec/blob/v1.1.1/spec.md#listing-referrers
	headerOCIFiltersApplied = "OCI-Filters-Applied"

	// headerOCISubject is the "OCI-Subject" header.
	// If present on the response, it contains the digest of the subject,
	// indicating that Referrers API is supported by the registry.
	headerOCISubject = "OCI-Subject"
)

// filterTypeArtifactType is the "artifactType" filter applied on the list of
// referrers.
//
// References:
//   - Latest spec: https://github.com/opencontainers/distribution-spec/blob/v1.1.1/spec.md#listing-referrers
//   - Compatible spec: https://github.com/opencontainers/distribution-spec/blob/v1.1.0-rc1/spec.md#listing-referrers
const filterTypeArtifactType = "artifactType"

// Client is an interface for a HTTP client.
type Client interface {
	// Do sends an HTTP request and returns an HTTP response.
	//
	// Unlike http.RoundTripper, Client can attempt to interpret the response
	// and handle higher-level protocol details such as redirects and
	// authentication.
	//
	// Like http.RoundTripper, Client should not modify the request, and must
	// always close the request body.
	Do(*http.Request) (*http.Response, error)
}

// Repository is an HTTP client to a remote repository.
type Repository struct {
	// Client is the underlying HTTP client used to access the remote registry.
	// If nil, auth.DefaultClient is used.
	Client Client

	// Reference references the remote repository.
	Reference registry.Reference

	// PlainHTTP signals the transport to access the remote repository via HTTP
	// instead of HTTPS.
	PlainHTTP bool

	// ManifestMediaTypes is used in `Accept` header for resolving manifests
	// from references. It is also used in identifying manifests and blobs from
	// descriptors. If an empty list is present, default manifest media types
	// are used.
	ManifestMediaTypes []string

	// TagListPageSize specifies the page size when invoking the tag list API.
	// If zero, the page size is determined by the remote registry.
	// Reference: https://docs.docker.com/registry/spec/api/#tags
	TagListPageSize int

	// ReferrerListPageSize specifies the page size when invoking the Referrers
	// API.
	// If zero, the page size is determined by the remote registry.
	//
	// NOTE: Pagination for the Referrers API is not defined in the distribution
	// spec, so not all registries support it. ReferrerListPageSize may be
	// ignored if pagination is unsupported by the remote registry.
	//
	// Reference: https://github.com/oras-project/oras-go/issues/841
	ReferrerListPageSize int

	// MaxMetadataBytes specifies a limit on how many response bytes are allowed
	// in the server's response to the metadata APIs, such as catalog list, tag
	// list, and referrers list.
	// If less than or equal to zero, a default (currently 4MiB) is used.
	MaxMetadataBytes int64

	// SkipReferrersGC specifies whether to delete the dangling referrers
	// index when referrers tag schema is utilized.
	//  - If false, the old referrers index will be deleted after the new one
	//    is successfully uploaded.
	//  - If true, the old referrers index is kept.
	// By default, it is disabled (set to false). See also:
	//  - https://github.com/opencontainers/distribution-spec/blob/v1.1.1/spec.md#referrers-tag-schema
	//  - https://github.com/opencontainers/distribution-spec/blob/v1.1.1/spec.md#pushing-manifests-with-subject
	//  - https://github.com/opencontainers/distribution-spec/blob/v1.1.1/spec.md#deleting-manifests
	SkipReferrersGC bool

	// HandleWarning handles the warning returned by the remote server.
	// Callers SHOULD deduplicate warnings from multiple associated responses.
	//
	// References:
	//   - https://github.com/opencontainers/distribution-spec/blob/v1.1.1/spec.md#warnings
	//   - https://www.rfc-editor.org/rfc/rfc7234#section-5.5
	HandleWarning func(warning Warning)

	// NOTE: Must keep fields in sync with clone().

	// referrersState represents that if the repository supports Referrers API.
	// default: referrersStateUnknown
	referrersState referrersState

	// referrersPingLock locks the pingReferrers() method and allows only
	// one go-routine to send the request.
	referrersPingLock sync.Mutex

	// referrersMergePool provides a way to manage concurrent updates to a
	// referrers index tagged by referrers tag schema.
	referrersMergePool syncutil.Pool[syncutil.Merge[referrerChange]]
}

// NewRepository creates a client to the remote repository identified by a
// reference.
// Example: localhost:5000/hello-world
func NewRepository(reference string) (*Repository, error) {
	ref, err := registry.ParseReference(reference)
	if err != nil {
		return nil, err
	}
	return &Repository{
		Reference: ref,
	}, nil
}

// newRepositoryWithOptions returns a Repository with the given Reference and
// RepositoryOptions.
//
// RepositoryOptions are part of the Registry struct and set its defaults.
// RepositoryOptions shares the same struct definition as Repository, which
// contains unexported state that must not be copied to multiple Repositories.
// To handle this we explicitly copy only the fields that we want to reproduce.
func newRepositoryWithOptions(ref registry.Reference, opts *RepositoryOptions) (*Repository, error) {
	if err := ref.ValidateRepository(); err != nil {
		return nil, err
	}
	repo := (*Repository)(opts).clone()
	repo.Reference = ref
	return repo, nil
}

// clone makes a copy of the Repository being careful not to copy non-copyable fields (sync.Mutex and syncutil.Pool types)
func (r *Repository) clone() *Repository {
	return &Repository{
		Client:               r.Client,
		Reference:            r.Reference,
		PlainHTTP:            r.PlainHTTP,
		ManifestMediaTypes:   slices.Clone(r.ManifestMediaTypes),
		TagListPageSize:      r.TagListPageSize,
		ReferrerListPageSize: r.ReferrerListPageSize,
		MaxMetadataBytes:     r.MaxMetadataBytes,
		SkipReferrersGC:      r.SkipReferrersGC,
		HandleWarning:        r.HandleWarning,
	}
}

// SetReferrersCapability indicates the Referrers API capability of the remote
// repository. true: capable; false: not capable.
//
// SetReferrersCapability is valid only when it is called for the first time.
// SetReferrersCapability returns ErrReferrersCapabilityAlreadySet if the
// Referrers API capability has been already set.
//   - When the capability is set to true, the Referrers() function will always
//     request the Referrers API. Reference: https://github.com/opencontainers/distribution-spec/blob/v1.1.1/spec.md#listing-referrers
//   - When the capability is set to false, the Referrers() function will always
//     request the Referrers Tag. Reference: https://github.com/opencontainers/distribution-spec/blob/v1.1.1/spec.md#referrers-tag-schema
//   - When the capability is not set, the Referrers() function will automatically
//     determine which API to use.
func (r *Repository) SetReferrersCapability(capable bool) error {
	var state referrersState
	if capable {
		state = referrersStateSupported
	} else {
		state = referrersStateUnsupported
	}
	if swapped := atomic.CompareAndSwapInt32(&r.referrersState, referrersStateUnknown, state); !swapped {
		if fact := r.loadReferrersState(); fact != state {
			return fmt.Errorf("%w: current capability = %v, new capability = %v",
				ErrReferrersCapabilityAlreadySet,
				fact == referrersStateSupported,
				capable)
		}
	}
	return nil
}

// setReferrersState atomically loads r.referrersState.
func (r *Repository) loadReferrersState() referrersState {
	return atomic.LoadInt32(&r.referrersState)
}

// client returns an HTTP client used to access the remote repository.
// A default HTTP client is return if the client is not configured.
func (r *Repository) client() Client {
	if r.Client == nil {
		return auth.DefaultClient
	}
	return r.Client
}

// do sends an HTTP request and returns an HTTP response using the HTTP client
// returned by r.client().
func (r *Repository) do(req *http.Request) (*http.Response, error) {
	if r.HandleWarning == nil {
		return r.client().Do(req)
	}

	resp, err := r.client().Do(req)
	if err != nil {
		return nil, err
	}
	handleWarningHeaders(resp.Header.Values(headerWarning), r.HandleWarning)
	return resp, nil
}

// blobStore detects the blob store for the given descriptor.
func (r *Repository) blobStore(desc ocispec.Descriptor) registry.BlobStore {
	if isManifest(r.ManifestMediaTypes, desc) {
		return r.Manifests()
	}
	return r.Blobs()
}

// Fetch fetches the content identified by the descriptor.
func (r *Repository) Fetch(ctx context.Context, target ocispec.Descriptor) (io.ReadCloser, error) {
	return r.blobStore(target).Fetch(ctx, target)
}

// Push pushes the content, matching the expected descriptor.
func (r *Repository) Push(ctx context.Context, expected ocispec.Descriptor, content io.Reader) error {
	return r.blobStore(expected).Push(ctx, expected, content)
}

// Mount makes the blob with the given digest in fromRepo
// available in the repository signified by the receiver.
//
// This avoids the need to pull content down from fromRepo only to push it to r.
//
// If the registry does not implement mounting, getContent will be used to get the
// content to push. If getContent is nil, the content will be pulled from the source
// repository. If getContent returns an error, it will be wrapped inside the error
// returned from Mount.
func (r *Repository) Mount(ctx context.Context, desc ocispec.Descriptor, fromRepo string, getContent func() (io.ReadCloser, error)) error {
	return r.Blobs().(registry.Mounter).Mount(ctx, desc, fromRepo, getContent)
}

// Exists returns true if the described content exists.
func (r *Repository) Exists(ctx context.Context, target ocispec.Descriptor) (bool, error) {
	return r.blobStore(target).Exists(ctx, target)
}

// Delete removes the content identified by the descriptor.
func (r *Repository) Delete(ctx context.Context, target ocispec.Descriptor) error {
	return r.blobStore(target).Delete(ctx, target)
}

// Blobs provides access to the blob CAS only, which contains config blobs,
// layers, and other generic blobs.
func (r *Repository) Blobs() registry.BlobStore {
	return &blobStore{repo: r}
}

// Manifests provides access to the manifest CAS only.
func (r *Repository) Manifests() registry.ManifestStore {
	return &manifestStore{repo: r}
}

// Resolve resolves a reference to a manifest descriptor.
// See also `ManifestMediaTypes`.
func (r *Repository) Resolve(ctx context.Context, reference string) (ocispec.Descriptor, error) {
	return r.Manifests().Resolve(ctx, reference)
}

// Tag tags a manifest descriptor with a reference string.
func (r *Repository) Tag(ctx context.Context, desc ocispec.Descriptor, reference string) error {
	return r.Manifests().Tag(ctx, desc, reference)
}

// PushReference pushes the manifest with a reference tag.
func (r *Repository) PushReference(ctx context.Context, expected ocispec.Descriptor, content io.Reader, reference string) error {
	return r.Manifests().PushReference(ctx, expected, content, reference)
}

// FetchReference fetches the manifest identified by the reference.
// The reference can be a tag or digest.
func (r *Repository) FetchReference(ctx context.Context, reference string) (ocispec.Descriptor, io.ReadCloser, error) {
	return r.Manifests().FetchReference(ctx, reference)
}

// ParseReference resolves a tag or a digest reference to a fully qualified
// reference from a base reference r.Reference.
// Tag, digest, or fully qualified references are accepted as input.
//
// If reference is a fully qualified reference, then ParseReference parses it
// and returns the parsed reference. If the parsed reference does not share
// the same base reference with the Repository r, ParseReference returns a
// wrapped error ErrInvalidReference.
func (r *Repository) ParseReference(reference string) (registry.Reference, error) {
	ref, err := registry.ParseReference(reference)
	if err != nil {
		ref = registry.Reference{
			Registry:   r.Reference.Registry,
			Repository: r.Reference.Repository,
			Reference:  reference,
		}

		// reference is not a FQDN
		if index := strings.IndexByte(reference, '@'); index != -1 {
			// `@` implies *digest*, so drop the *tag* (irrespective of what it is).
			ref.Reference = reference[index+1:]
			err = ref.ValidateReferenceAsDigest()
		} else {
			err = ref.ValidateReference()
		}

		if err != nil {
			return registry.Reference{}, err
		}
	} else if ref.Registry != r.Reference.Registry || ref.Repository != r.Reference.Repository {
		return registry.Reference{}, fmt.Errorf(
			"%w: mismatch between received %q and expected %q",
			errdef.ErrInvalidReference, ref, r.Reference,
		)
	}

	if len(ref.Reference) == 0 {
		return registry.Reference{}, errdef.ErrInvalidReference
	}

	return ref, nil
}

// Tags lists the tags available in the repository.
// See also `TagListPageSize`.
// If `last` is NOT empty, the entries in the response start after the
// tag specified by `last`. Otherwise, the response starts from the top
// of the Tags list.
//
// References:
//   - https://github.com/opencontainers/distribution-spec/blob/v1.1.1/spec.md#content-discovery
//   - https://docs.docker.com/registry/spec/api/#tags
func (r *Repository) Tags(ctx context.Context, last string, fn func(tags []string) error) error {
	ctx = auth.AppendRepositoryScope(ctx, r.Reference, auth.ActionPull)
	url := buildRepositoryTagListURL(r.PlainHTTP, r.Reference)
	var err error
	for err == nil {
		url, err = r.tags(ctx, last, fn, url)
		// clear `last` for subsequent pages
		last = ""
	}
	if err != errNoLink {
		return err
	}
	return nil
}

// tags returns a single page of tag list with the next link.
func (r *Repository) tags(ctx context.Context, last string, fn func(tags []string) error, url string) (string, error) {
	req, err := http.NewRequestWithContext(ctx, http.MethodGet, url, nil)
	if err != nil {
		return "", err
	}
	if r.TagListPageSize > 0 || last != "" {
		q := req.URL.Query()
		if r.TagListPageSize > 0 {
			q.Set("n", strconv.Itoa(r.TagListPageSize))
		}
		if last != "" {
			q.Set("last", last)
		}
		req.URL.RawQuery = q.Encode()
	}
	resp, err := r.do(req)
	if err != nil {
		return "", err
	}
	defer resp.Body.Close()

	if resp.StatusCode != http.StatusOK {
		return "", errutil.ParseErrorResponse(resp)
	}
	var page struct {
		Tags []string `json:"tags"`
	}
	lr := limitReader(resp.Body, r.MaxMetadataBytes)
	if err := json.NewDecoder(lr).Decode(&page); err != nil {
		return "", fmt.Errorf("%s %q: failed to decode response: %w", resp.Request.Method, resp.Request.URL, err)
	}
	if err := fn(page.Tags); err != nil {
		return "", err
	}

	return parseLink(resp)
}

// Predecessors returns the descriptors of image or artifact manifests directly
// referencing the given manifest descriptor.
// Predecessors internally leverages Referrers.
// Reference: https://github.com/opencontainers/distribution-spec/blob/v1.1.1/spec.md#listing-referrers
func (r *Repository) Predecessors(ctx context.Context, desc ocispec.Descriptor) ([]ocispec.Descriptor, error) {
	var res []ocispec.Descriptor
	if err := r.Referrers(ctx, desc, "", func(referrers []ocispec.Descriptor) error {
		res = append(res, referrers...)
		return nil
	}); err != nil {
		return nil, err
	}
	return res, nil
}

// Referrers lists the descriptors of image or artifact manifests directly
// referencing the given manifest descriptor.
//
// fn is called for each page of the referrers result.
// If artifactType is not empty, only referrers of the same artifact type are
// fed to fn.
//
// Reference: https://github.com/opencontainers/distribution-spec/blob/v1.1.1/spec.md#listing-referrers
func (r *Repository) Referrers(ctx context.Context, desc ocispec.Descriptor, artifactType string, fn func(referrers []ocispec.Descriptor) error) error {
	state := r.loadReferrersState()
	if state == referrersStateUnsupported {
		// The repository is known to not support Referrers API, fallback to
		// referrers tag schema.
		return r.referrersByTagSchema(ctx, desc, artifactType, fn)
	}

	err := r.referrersByAPI(ctx, desc, artifactType, fn)
	if state == referrersStateSupported {
		// The repository is known to support Referrers API, no fallback.
		return err
	}

	// The referrers state is unknown.
	if err != nil {
		if errors.Is(err, errdef.ErrUnsupported) {
			// Referrers API is not supported, fallback to referrers tag schema.
			r.SetReferrersCapability(false)
			return r.referrersByTagSchema(ctx, desc, artifactType, fn)
		}
		return err
	}

	r.SetReferrersCapability(true)
	return nil
}

// referrersByAPI lists the descriptors of manifests directly referencing
// the given manifest descriptor by requesting Referrers API.
// fn is called for the referrers result. If artifactType is not empty,
// only referrers of the same artifact type are fed to fn.
func (r *Repository) referrersByAPI(ctx context.Context, desc ocispec.Descriptor, artifactType string, fn func(referrers []ocispec.Descriptor) error) error {
	ref := r.Reference
	ref.Reference = desc.Digest.String()
	ctx = auth.AppendRepositoryScope(ctx, ref, auth.ActionPull)

	url := buildReferrersURL(r.PlainHTTP, ref, artifactType)
	var err error
	for err == nil {
		url, err = r.referrersPageByAPI(ctx, artifactType, fn, url)
	}
	if err == errNoLink {
		return nil
	}
	return err
}

// referrersPageByAPI lists a single page of the descriptors of manifests
// directly referencing the given manifest descriptor. fn is called for
// a page of referrersPageByAPI result.
// If artifactType is not empty, only referrersPageByAPI of the same
// artifact type are fed to fn.
// referrersPageByAPI returns the link url for the next page.
func (r *Repository) referrersPageByAPI(ctx context.Context, artifactType string, fn func(referrers []ocispec.Descriptor) error, url string) (string, error) {
	req, err := http.NewRequestWithContext(ctx, http.MethodGet, url, nil)
	if err != nil {
		return "", err
	}
	if r.ReferrerListPageSize > 0 {
		q := req.URL.Query()
		q.Set("n", strconv.Itoa(r.ReferrerListPageSize))
		req.URL.RawQuery = q.Encode()
	}

	resp, err := r.do(req)
	if err != nil {
		return "", err
	}
	defer resp.Body.Close()

	switch resp.StatusCode {
	case http.StatusOK:
	case http.StatusNotFound:
		if errResp := errutil.ParseErrorResponse(resp); errutil.IsErrorCode(errResp, errcode.ErrorCodeNameUnknown) {
			// The repository is not found, Referrers API status is unknown
			return "", errResp
		}
		// Referrers API is not supported.
		return "", fmt.Errorf("failed to query referrers API: %w", errdef.ErrUnsupported)
	default:
		return "", errutil.ParseErrorResponse(resp)
	}

	// also check the content type
	if ct := resp.Header.Get("Content-Type"); ct != ocispec.MediaTypeImageIndex {
		return "", fmt.Errorf("unknown content returned (%s), expecting image index: %w", ct, errdef.ErrUnsupported)
	}

	var index ocispec.Index
	lr := limitReader(resp.Body, r.MaxMetadataBytes)
	if err := json.NewDecoder(lr).Decode(&index); err != nil {
		return "", fmt.Errorf("%s %q: failed to decode response: %w", resp.Request.Method, resp.Request.URL, err)
	}

	referrers := index.Manifests
	if artifactType != "" {
		// check both filters header and filters annotations for compatibility
		// latest spec for filters header: https://github.com/opencontainers/distribution-spec/blob/v1.1.1/spec.md#listing-referrers
		// older spec for filters annotations: https://github.com/opencontainers/distribution-spec/blob/v1.1.0-rc1/spec.md#listing-referrers
		filtersHeader := resp.Header.Get(headerOCIFiltersApplied)
		filtersAnnotation := index.Annotations[spec.AnnotationReferrersFiltersApplied]
		if !isReferrersFilterApplied(filtersHeader, filterTypeArtifactType) &&
			!isReferrersFilterApplied(filtersAnnotation, filterTypeArtifactType) {
			// perform client side filtering if the filter is not applied on the server side
			referrers = filterReferrers(referrers, artifactType)
		}
	}
	if len(referrers) > 0 {
		if err := fn(referrers); err != nil {
			return "", err
		}
	}
	return parseLink(resp)
}

// referrersByTagSchema lists the descriptors of manifests directly
// referencing the given manifest descriptor by requesting referrers tag.
// fn is called for the referrers result. If artifactType is not empty,
// only referrers of the same artifact type are fed to fn.
// reference: https://github.com/opencontainers/distribution-spec/blob/v1.1.1/spec.md#backwards-compatibility
func (r *Repository) referrersByTagSchema(ctx context.Context, desc ocispec.Descriptor, artifactType string, fn func(referrers []ocispec.Descriptor) error) error {
	referrersTag, err := buildReferrersTag(desc)
	if err != nil {
		return err
	}
	_, referrers, err := r.referrersFromIndex(ctx, referrersTag)
	if err != nil {
		if errors.Is(err, errdef.ErrNotFound) {
			// no referrers to the manifest
			return nil
		}
		return err
	}

	filtered := filterReferrers(referrers, artifactType)
	if len(filtered) == 0 {
		return nil
	}
	return fn(filtered)
}

// referrersFromIndex queries the referrers index using the the given referrers
// tag. If Succeeded, returns the descriptor of referrers index and the
// referrers list.
func (r *Repository) referrersFromIndex(ctx context.Context, referrersTag string) (ocispec.Descriptor, []ocispec.Descriptor, error) {
	desc, rc, err := r.FetchReference(ctx, referrersTag)
	if err != nil {
		return ocispec.Descriptor{}, nil, err
	}
	defer rc.Close()

	if err := limitSize(desc, r.MaxMetadataBytes); err != nil {
		return ocispec.Descriptor{}, nil, fmt.Errorf("failed to read referrers index from referrers tag %s: %w", referrersTag, err)
	}
	var index ocispec.Index
	if err := decodeJSON(rc, desc, &index); err != nil {
		return ocispec.Descriptor{}, nil, fmt.Errorf("failed to decode referrers index from referrers tag %s: %w", referrersTag, err)
	}

	return desc, index.Manifests, nil
}

// pingReferrers returns true if the Referrers API is available for r.
func (r *Repository) pingReferrers(ctx context.Context) (bool, error) {
	switch r.loadReferrersState() {
	case referrersStateSupported:
		return true, nil
	case referrersStateUnsupported:
		return false, nil
	}

	// referrers state is unknown
	// limit the rate of pinging referrers API
	r.referrersPingLock.Lock()
	defer r.referrersPingLock.Unlock()

	switch r.loadReferrersState() {
	case referrersStateSupported:
		return true, nil
	case referrersStateUnsupported:
		return false, nil
	}

	ref := r.Reference
	ref.Reference = zeroDigest
	ctx = auth.AppendRepositoryScope(ctx, ref, auth.ActionPull)

	url := buildReferrersURL(r.PlainHTTP, ref, "")
	req, err := http.NewRequestWithContext(ctx, http.MethodGet, url, nil)
	if err != nil {
		return false, err
	}
	resp, err := r.do(req)
	if err != nil {
		return false, err
	}
	defer resp.Body.Close()

	switch resp.StatusCode {
	case http.StatusOK:
		supported := resp.Header.Get("Content-Type") == ocispec.MediaTypeImageIndex
		r.SetReferrersCapability(supported)
		return supported, nil
	case http.StatusNotFound:
		if err := errutil.ParseErrorResponse(resp); errutil.IsErrorCode(err, errcode.ErrorCodeNameUnknown) {
			// repository not found
			return false, err
		}
		r.SetReferrersCapability(false)
		return false, nil
	default:
		return false, errutil.ParseErrorResponse(resp)
	}
}

// delete removes the content identified by the descriptor in the entity "blobs"
// or "manifests".
func (r *Repository) delete(ctx context.Context, target ocispec.Descriptor, isManifest bool) error {
	ref := r.Reference
	ref.Reference = target.Digest.String()
	ctx = auth.AppendRepositoryScope(ctx, ref, auth.ActionDelete)
	buildURL := buildRepositoryBlobURL
	if isManifest {
		buildURL = buildRepositoryManifestURL
	}
	url := buildURL(r.PlainHTTP, ref)
	req, err := http.NewRequestWithContext(ctx, http.MethodDelete, url, nil)
	if err != nil {
		return err
	}

	resp, err := r.do(req)
	if err != nil {
		return err
	}
	defer resp.Body.Close()

	switch resp.StatusCode {
	case http.StatusAccepted:
		return verifyContentDigest(resp, target.Digest)
	case http.StatusNotFound:
		return fmt.Errorf("%s: %w", target.Digest, errdef.ErrNotFound)
	default:
		return errutil.ParseErrorResponse(resp)
	}
}

// blobStore accesses the blob part of the repository.
type blobStore struct {
	repo *Repository
}

// Fetch fetches the content identified by the descriptor.
func (s *blobStore) Fetch(ctx context.Context, target ocispec.Descriptor) (rc io.ReadCloser, err error) {
	ref := s.repo.Reference
	ref.Reference = target.Digest.String()
	ctx = auth.AppendRepositoryScope(ctx, ref, auth.ActionPull)
	url := buildRepositoryBlobURL(s.repo.PlainHTTP, ref)
	req, err := http.NewRequestWithContext(ctx, http.MethodGet, url, nil)
	if err != nil {
		return nil, err
	}

	resp, err := s.repo.do(req)
	if err != nil {
		return nil, err
	}
	defer func() {
		if err != nil {
			resp.Body.Close()
		}
	}()

	switch resp.StatusCode {
	case http.StatusOK:
		if size := resp.ContentLength; size != -1 && size != target.Size {
			return nil, fmt.Errorf("%s %q: mismatch Content-Length", resp.Request.Method, resp.Request.URL)
		}
		if err := verifyContentDigest(resp, target.Digest); err != nil {
			return nil, err
		}

		// check server range request capability.
		// Docker spec allows range header form of "Range: bytes=<start>-<end>".
		// However, the remote server may still not RFC 7233 compliant.
		// Reference: https://docs.docker.com/registry/spec/api/#blob
		if rangeUnit := resp.Header.Get("Accept-Ranges"); rangeUnit == "bytes" {
			return httputil.NewReadSeekCloser(s.repo.client(), req, resp.Body, target.Size), nil
		}
		return resp.Body, nil
	case http.StatusNotFound:
		return nil, fmt.Errorf("%s: %w", target.Digest, errdef.ErrNotFound)
	default:
		return nil, errutil.ParseErrorResponse(resp)
	}
}

// Mount mounts the given descriptor from fromRepo into s.
func (s *blobStore) Mount(ctx context.Context, desc ocispec.Descriptor, fromRepo string, getContent func() (io.ReadCloser, error)) error {
	// pushing usually requires both pull and push actions.
	// Reference: https://github.com/distribution/distribution/blob/v2.7.1/registry/handlers/app.go#L921-L930
	ctx = auth.AppendRepositoryScope(ctx, s.repo.Reference, auth.ActionPull, auth.ActionPush)

	// We also need pull access to the source repo.
	fromRef := s.repo.Reference
	fromRef.Repository = fromRepo
	ctx = auth.AppendRepositoryScope(ctx, fromRef, auth.ActionPull)

	url := buildRepositoryBlobMountURL(s.repo.PlainHTTP, s.repo.Reference, desc.Digest, fromRepo)
	req, err := http.NewRequestWithContext(ctx, http.MethodPost, url, nil)
	if err != nil {
		return err
	}
	resp, err := s.repo.do(req)
	if err != nil {
		return err
	}
	if resp.StatusCode == http.StatusCreated {
		defer resp.Body.Close()
		// Check the server seems to be behaving.
		return verifyContentDigest(resp, desc.Digest)
	}
	if resp.StatusCode != http.StatusAccepted {
		defer resp.Body.Close()
		return errutil.ParseErrorResponse(resp)
	}
	resp.Body.Close()
	// From the [spec]:
	//
	// "If a registry does not support cross-repository mounting
	// or is unable to mount the requested blob,
	// it SHOULD return a 202.
	// This indicates that the upload session has begun
	// and that the client MAY proceed with the upload."
	//
	// So we need to get the content from somewhere in order to
	// push it. If the caller has provided a getContent function, we
	// can use that, otherwise pull the content from the source repository.
	//
	// [spec]: https://github.com/opencontainers/distribution-spec/blob/v1.1.1/spec.md#mounting-a-blob-from-another-repository

	var r io.ReadCloser
	if getContent != nil {
		r, err = getContent()
	} else {
		r, err = s.sibling(fromRepo).Fetch(ctx, desc)
	}
	if err != nil {
		return fmt.Errorf("cannot read source blob: %w", err)
	}
	defer r.Close()
	return s.completePushAfterInitialPost(ctx, req, resp, desc, r)
}

// sibling returns a blob store for another repository in the same
// registry.
func (s *blobStore) sibling(otherRepoName string) *blobStore {
	otherRepo := s.repo.clone()
	otherRepo.Reference.Repository = otherRepoName
	return &blobStore{
		repo: otherRepo,
	}
}

// Push pushes the content, matching the expected descriptor.
// Existing content is not checked by Push() to minimize the number of out-going
// requests.
// Push is done by conventional 2-step monolithic upload instead of a single
// `POST` request for better overall performance. It also allows early fail on
// authentication errors.
//
// References:
//   - https://docs.docker.com/registry/spec/api/#pushing-an-image
//   - https://docs.docker.com/registry/spec/api/#initiate-blob-upload
//   - https://github.com/opencontainers/distribution-spec/blob/v1.1.1/spec.md#pushing-a-blob-monolithically
func (s *blobStore) Push(ctx context.Context, expected ocispec.Descriptor, content io.Reader) error {
	// start an upload
	// pushing usually requires both pull and push actions.
	// Reference: https://github.com/distribution/distribution/blob/v2.7.1/registry/handlers/app.go#L921-L930
	ctx = auth.AppendRepositoryScope(ctx, s.repo.Reference, auth.ActionPull, auth.ActionPush)
	url := buildRepositoryBlobUploadURL(s.repo.PlainHTTP, s.repo.Reference)
	req, err := http.NewRequestWithContext(ctx, http.MethodPost, url, nil)
	if err != nil {
		return err
	}

	resp, err := s.repo.do(req)
	if err != nil {
		return err
	}

	if resp.StatusCode != http.StatusAccepted {
		defer resp.Body.Close()
		return errutil.ParseErrorResponse(resp)
	}
	resp.Body.Close()
	return s.completePushAfterInitialPost(ctx, req, resp, expected, content)
}

// completePushAfterInitialPost implements step 2 of the push protocol. This can be invoked either by
// Push or by Mount when the receiving repository does not implement the
// mount endpoint.
func (s *blobStore) completePushAfterInitialPost(ctx context.Context, req *http.Request, resp *http.Response, expected ocispec.Descriptor, content io.Reader) error {
	reqHostname := req.URL.Hostname()
	reqPort := req.URL.Port()
	// monolithic upload
	location, err := resp.Location()
	if err != nil {
		return err
	}
	// work-around solution for https://github.com/oras-project/oras-go/issues/177
	// For some registries, if the port 443 is explicitly set to the hostname
	// like registry.wabbit-networks.io:443/myrepo, blob push will fail since
	// the hostname of the Location header in the response is set to
	// registry.wabbit-networks.io instead of registry.wabbit-networks.io:443.
	locationHostname := location.Hostname()
	locationPort := location.Port()
	// if location port 443 is missing, add it back
	if reqPort == "443" && locationHostname == reqHostname && locationPort == "" {
		location.Host = locationHostname + ":" + reqPort
	}
	url := location.String()
	req, err = http.NewRequestWithContext(ctx, http.MethodPut, url, content)
	if err != nil {
		return err
	}
	if req.GetBody != nil && req.ContentLength != expected.Size {
		// short circuit a size mismatch for built-in types.
		return fmt.Errorf("mismatch content length %d: expect %d", req.ContentLength, expected.Size)
	}
	req.ContentLength = expected.Size
	// the expected media type is ignored as in the API doc.
	req.Header.Set("Content-Type", "application/octet-stream")
	q := req.URL.Query()
	q.Set("digest", expected.Digest.String())
	req.URL.RawQuery = q.Encode()

	// reuse credential from previous POST request
	if auth := resp.Request.Header.Get("Authorization"); auth != "" {
		req.Header.Set("Authorization", auth)
	}
	resp, err = s.repo.do(req)
	if err != nil {
		return err
	}
	defer resp.Body.Close()

	if resp.StatusCode != http.StatusCreated {
		return errutil.ParseErrorResponse(resp)
	}
	return nil
}

// Exists returns true if the described content exists.
func (s *blobStore) Exists(ctx context.Context, target ocispec.Descriptor) (bool, error) {
	_, err := s.Resolve(ctx, target.Digest.String())
	if err == nil {
		return true, nil
	}
	if errors.Is(err, errdef.ErrNotFound) {
		return false, nil
	}
	return false, err
}

// Delete removes the content identified by the descriptor.
func (s *blobStore) Delete(ctx context.Context, target ocispec.Descriptor) error {
	return s.repo.delete(ctx, target, false)
}

// Resolve resolves a reference to a descriptor.
func (s *blobStore) Resolve(ctx context.Context, reference string) (ocispec.Descriptor, error) {
	ref, err := s.repo.ParseReference(reference)
	if err != nil {
		return ocispec.Descriptor{}, err
	}
	refDigest, err := ref.Digest()
	if err != nil {
		return ocispec.Descriptor{}, err
	}
	ctx = auth.AppendRepositoryScope(ctx, ref, auth.ActionPull)
	url := buildRepositoryBlobURL(s.repo.PlainHTTP, ref)
	req, err := http.NewRequestWithContext(ctx, http.MethodHead, url, nil)
	if err != nil {
		return ocispec.Descriptor{}, err
	}

	resp, err := s.repo.do(req)
	if err != nil {
		return ocispec.Descriptor{}, err
	}
	defer resp.Body.Close()

	switch resp.StatusCode {
	case http.StatusOK:
		return generateBlobDescriptor(resp, refDigest)
	case http.StatusNotFound:
		return ocispec.Descriptor{}, fmt.Errorf("%s: %w", ref, errdef.ErrNotFound)
	default:
		return ocispec.Descriptor{}, errutil.ParseErrorResponse(resp)
	}
}

// FetchReference fetches the blob identified by the reference.
// The reference must be a digest.
func (s *blobStore) FetchReference(ctx context.Context, reference string) (desc ocispec.Descriptor, rc io.ReadCloser, err error) {
	ref, err := s.repo.ParseReference(reference)
	if err != nil {
		return ocispec.Descriptor{}, nil, err
	}
	refDigest, err := ref.Digest()
	if err != nil {
		return ocispec.Descriptor{}, nil, err
	}

	ctx = auth.AppendRepositoryScope(ctx, ref, auth.ActionPull)
	url := buildRepositoryBlobURL(s.repo.PlainHTTP, ref)
	req, err := http.NewRequestWithContext(ctx, http.MethodGet, url, nil)
	if err != nil {
		return ocispec.Descriptor{}, nil, err
	}

	resp, err := s.repo.do(req)
	if err != nil {
		return ocispec.Descriptor{}, nil, err
	}
	defer func() {
		if err != nil {
			resp.Body.Close()
		}
	}()

	switch resp.StatusCode {
	case http.StatusOK: // server does not support seek as `Range` was ignored.
		if resp.ContentLength == -1 {
			desc, err = s.Resolve(ctx, reference)
		} else {
			desc, err = generateBlobDescriptor(resp, refDigest)
		}
		if err != nil {
			return ocispec.Descriptor{}, nil, err
		}

		// check server range request capability.
		// Docker spec allows range header form of "Range: bytes=<start>-<end>".
		// However, the remote server may still not RFC 7233 compliant.
		// Reference: https://docs.docker.com/registry/spec/api/#blob
		if rangeUnit := resp.Header.Get("Accept-Ranges"); rangeUnit == "bytes" {
			return desc, httputil.NewReadSeekCloser(s.repo.client(), req, resp.Body, desc.Size), nil
		}
		return desc, resp.Body, nil
	case http.StatusNotFound:
		return ocispec.Descriptor{}, nil, fmt.Errorf("%s: %w", ref, errdef.ErrNotFound)
	default:
		return ocispec.Descriptor{}, nil, errutil.ParseErrorResponse(resp)
	}
}

// generateBlobDescriptor returns a descriptor generated from the response.
func generateBlobDescriptor(resp *http.Response, refDigest digest.Digest) (ocispec.Descriptor, error) {
	mediaType, _, _ := mime.ParseMediaType(resp.Header.Get("Content-Type"))
	if mediaType == "" {
		mediaType = "application/octet-stream"
	}

	size := resp.ContentLength
	if size == -1 {
		return ocispec.Descriptor{}, fmt.Errorf("%s %q: unknown response Content-Length", resp.Request.Method, resp.Request.URL)
	}

	if err := verifyContentDigest(resp, refDigest); err != nil {
		return ocispec.Descriptor{}, err
	}

	return ocispec.Descriptor{
		MediaType: mediaType,
		Digest:    refDigest,
		Size:      size,
	}, nil
}

// manifestStore accesses the manifest part of the repository.
type manifestStore struct {
	repo *Repository
}

// Fetch fetches the content identified by the descriptor.
func (s *manifestStore) Fetch(ctx context.Context, target ocispec.Descriptor) (rc io.ReadCloser, err error) {
	ref := s.repo.Reference
	ref.Reference = target.Digest.String()
	ctx = auth.AppendRepositoryScope(ctx, ref, auth.ActionPull)
	url := buildRepositoryManifestURL(s.repo.PlainHTTP, ref)
	req, err := http.NewRequestWithContext(ctx, http.MethodGet, url, nil)
	if err != nil {
		return nil, err
	}
	req.Header.Set("Accept", target.MediaType)

	resp, err := s.repo.do(req)
	if err != nil {
		return nil, err
	}
	defer func() {
		if err != nil {
			resp.Body.Close()
		}
	}()

	switch resp.StatusCode {
	case http.StatusOK:
		// no-op
	case http.StatusNotFound:
		return nil, fmt.Errorf("%s: %w", target.Digest, errdef.ErrNotFound)
	default:
		return nil, errutil.ParseErrorResponse(resp)
	}
	mediaType, _, err := mime.ParseMediaType(resp.Header.Get("Content-Type"))
	if err != nil {
		return nil, fmt.Errorf("%s %q: invalid response Content-Type: %w", resp.Request.Method, resp.Request.URL, err)
	}
	if mediaType != target.MediaType {
		return nil, fmt.Errorf("%s %q: mismatch response Content-Type %q: expect %q", resp.Request.Method, resp.Request.URL, mediaType, target.MediaType)
	}
	if size := resp.ContentLength; size != -1 && size != target.Size {
		return nil, fmt.Errorf("%s %q: mismatch Content-Length", resp.Request.Method, resp.Request.URL)
	}
	if err := verifyContentDigest(resp, target.Digest); err != nil {
		return nil, err
	}
	return resp.Body, nil
}

// Push pushes the content, matching the expected descriptor.
func (s *manifestStore) Push(ctx context.Context, expected ocispec.Descriptor, content io.Reader) error {
	return s.pushWithIndexing(ctx, expected, content, expected.Digest.String())
}

// Exists returns true if the described content exists.
func (s *manifestStore) Exists(ctx context.Context, target ocispec.Descriptor) (bool, error) {
	_, err := s.Resolve(ctx, target.Digest.String())
	if err == nil {
		return true, nil
	}
	if errors.Is(err, errdef.ErrNotFound) {
		return false, nil
	}
	return false, err
}

// Delete removes the manifest content identified by the descriptor.
func (s *manifestStore) Delete(ctx context.Context, target ocispec.Descriptor) error {
	return s.deleteWithIndexing(ctx, target)
}

// deleteWithIndexing removes the manifest content identified by the descriptor,
// and indexes referrers for the manifest when needed.
func (s *manifestStore) deleteWithIndexing(ctx context.Context, target ocispec.Descriptor) error {
	switch target.MediaType {
	case spec.MediaTypeArtifactManifest, ocispec.MediaTypeImageManifest, ocispec.MediaTypeImageIndex:
		if state := s.repo.loadReferrersState(); state == referrersStateSupported {
			// referrers API is available, no client-side indexing needed
			return s.repo.delete(ctx, target, true)
		}

		if err := limitSize(target, s.repo.MaxMetadataBytes); err != nil {
			return err
		}
		ctx = auth.AppendRepositoryScope(ctx, s.repo.Reference, auth.ActionPull, auth.ActionDelete)
		manifestJSON, err := content.FetchAll(ctx, s, target)
		if err != nil {
			return err
		}
		if err := s.indexReferrersForDelete(ctx, target, manifestJSON); err != nil {
			return err
		}
	}

	return s.repo.delete(ctx, target, true)
}

// indexReferrersForDelete indexes referrers for manifests with a subject field
// on manifest delete.
//
// References:
//   - Latest spec: https://github.com/opencontainers/distribution-spec/blob/v1.1.1/spec.md#deleting-manifests
//   - Compatible spec: https://github.com/opencontainers/distribution-spec/blob/v1.1.0-rc1/spec.md#deleting-manifests
func (s *manifestStore) indexReferrersForDelete(ctx context.Context, desc ocispec.Descriptor, manifestJSON []byte) error {
	var manifest struct {
		Subject *ocispec.Descriptor `json:"subject"`
	}
	if err := json.Unmarshal(manifestJSON, &manifest); err != nil {
		return fmt.Errorf("failed to decode manifest: %s: %s: %w", desc.Digest, desc.MediaType, err)
	}
	if manifest.Subject == nil {
		// no subject, no indexing needed
		return nil
	}

	subject := *manifest.Subject
	ok, err := s.repo.pingReferrers(ctx)
	if err != nil {
		return err
	}
	if ok {
		// referrers API is available, no client-side indexing needed
		return nil
	}
	return s.updateReferrersIndex(ctx, subject, referrerChange{desc, referrerOperationRemove})
}

// Resolve resolves a reference to a descriptor.
// See also `ManifestMediaTypes`.
func (s *manifestStore) Resolve(ctx context.Context, reference string) (ocispec.Descriptor, error) {
	ref, err := s.repo.ParseReference(reference)
	if err != nil {
		return ocispec.Descriptor{}, err
	}
	ctx = auth.AppendRepositoryScope(ctx, ref, auth.ActionPull)
	url := buildRepositoryManifestURL(s.repo.PlainHTTP, ref)
	req, err := http.NewRequestWithContext(ctx, http.MethodHead, url, nil)
	if err != nil {
		return ocispec.Descriptor{}, err
	}
	req.Header.Set("Accept", manifestAcceptHeader(s.repo.ManifestMediaTypes))

	resp, err := s.repo.do(req)
	if err != nil {
		return ocispec.Descriptor{}, err
	}
	defer resp.Body.Close()

	switch resp.StatusCode {
	case http.StatusOK:
		return s.generateDescriptor(resp, ref, req.Method)
	case http.StatusNotFound:
		return ocispec.Descriptor{}, fmt.Errorf("%s: %w", ref, errdef.ErrNotFound)
	default:
		return ocispec.Descriptor{}, errutil.ParseErrorResponse(resp)
	}
}

// FetchReference fetches the manifest identified by the reference.
// The reference can be a tag or digest.
func (s *manifestStore) FetchReference(ctx context.Context, reference string) (desc ocispec.Descriptor, rc io.ReadCloser, err error) {
	ref, err := s.repo.ParseReference(reference)
	if err != nil {
		return ocispec.Descriptor{}, nil, err
	}

	ctx = auth.AppendRepositoryScope(ctx, ref, auth.ActionPull)
	url := buildRepositoryManifestURL(s.repo.PlainHTTP, ref)
	req, err := http.NewRequestWithContext(ctx, http.MethodGet, url, nil)
	if err != nil {
		return ocispec.Descriptor{}, nil, err
	}
	req.Header.Set("Accept", manifestAcceptHeader(s.repo.ManifestMediaTypes))

	resp, err := s.repo.do(req)
	if err != nil {
		return ocispec.Descriptor{}, nil, err
	}
	defer func() {
		if err != nil {
			resp.Body.Close()
		}
	}()

	switch resp.StatusCode {
	case http.StatusOK:
		if resp.ContentLength == -1 {
			desc, err = s.Resolve(ctx, reference)
		} else {
			desc, err = s.generateDescriptor(resp, ref, req.Method)
		}
		if err != nil {
			return ocispec.Descriptor{}, nil, err
		}
		return desc, resp.Body, nil
	case http.StatusNotFound:
		return ocispec.Descriptor{}, nil, fmt.Errorf("%s: %w", ref, errdef.ErrNotFound)
	default:
		return ocispec.Descriptor{}, nil, errutil.ParseErrorResponse(resp)
	}
}

// Tag tags a manifest descriptor with a reference string.
func (s *manifestStore) Tag(ctx context.Context, desc ocispec.Descriptor, reference string) error {
	ref, err := s.repo.ParseReference(reference)
	if err != nil {
		return err
	}

	ctx = auth.AppendRepositoryScope(ctx, ref, auth.ActionPull, auth.ActionPush)
	rc, err := s.Fetch(ctx, desc)
	if err != nil {
		return err
	}
	defer rc.Close()

	return s.push(ctx, desc, rc, ref.Reference)
}

// PushReference pushes the manifest with a reference tag.
func (s *manifestStore) PushReference(ctx context.Context, expected ocispec.Descriptor, content io.Reader, reference string) error {
	ref, err := s.repo.ParseReference(reference)
	if err != nil {
		return err
	}
	return s.pushWithIndexing(ctx, expected, content, ref.Reference)
}

// push pushes the manifest content, matching the expected descriptor.
func (s *manifestStore) push(ctx context.Context, expected ocispec.Descriptor, content io.Reader, reference string) error {
	ref := s.repo.Reference
	ref.Reference = reference
	// pushing usually requires both pull and push actions.
	// Reference: https://github.com/distribution/distribution/blob/v2.7.1/registry/handlers/app.go#L921-L930
	ctx = auth.AppendRepositoryScope(ctx, ref, auth.ActionPull, auth.ActionPush)
	url := buildRepositoryManifestURL(s.repo.PlainHTTP, ref)
	// unwrap the content for optimizations of built-in types.
	body := ioutil.UnwrapNopCloser(content)
	if _, ok := body.(io.ReadCloser); ok {
		// undo unwrap if the nopCloser is intended.
		body = content
	}
	req, err := http.NewRequestWithContext(ctx, http.MethodPut, url, body)
	if err != nil {
		return err
	}
	if req.GetBody != nil && req.ContentLength != expected.Size {
		// short circuit a size mismatch for built-in types.
		return fmt.Errorf("mismatch content length %d: expect %d", req.ContentLength, expected.Size)
	}
	req.ContentLength = expected.Size
	req.Header.Set("Content-Type", expected.MediaType)

	// if the underlying client is an auth client, the content might be read
	// more than once for obtaining the auth challenge and the actual request.
	// To prevent double reading, the manifest is read and stored in the memory,
	// and serve from the memory.
	client := s.repo.client()
	if _, ok := client.(*auth.Client); ok && req.GetBody == nil {
		store := cas.NewMemory()
		err := store.Push(ctx, expected, content)
		if err != nil {
			return err
		}
		req.GetBody = func() (io.ReadCloser, error) {
			return store.Fetch(ctx, expected)
		}
		req.Body, err = req.GetBody()
		if err != nil {
			return err
		}
	}
	resp, err := s.repo.do(req)
	if err != nil {
		return err
	}
	defer resp.Body.Close()

	if resp.StatusCode != http.StatusCreated {
		return errutil.ParseErrorResponse(resp)
	}
	s.checkOCISubjectHeader(resp)
	return verifyContentDigest(resp, expected.Digest)
}

// checkOCISubjectHeader checks the "OCI-Subject" header in the response and
// sets referrers capability accordingly.
// Reference: https://github.com/opencontainers/distribution-spec/blob/v1.1.1/spec.md#pushing-manifests-with-subject
func (s *manifestStore) checkOCISubjectHeader(resp *http.Response) {
	// If the "OCI-Subject" header is set, it indicates that the registry
	// supports the Referrers API and has processed the subject of the manifest.
	if subjectHeader := resp.Header.Get(headerOCISubject); subjectHeader != "" {
		s.repo.SetReferrersCapability(true)
	}

	// If the "OCI-Subject" header is NOT set, it means that either the manifest
	// has no subject OR the referrers API is NOT supported by the registry.
	//
	// Since we don't know whether the pushed manifest has a subject or not,
	// we do not set the referrers capability to false at here.
}

// pushWithIndexing pushes the manifest content matching the expected descriptor,
// and indexes referrers for the manifest when needed.
func (s *manifestStore) pushWithIndexing(ctx context.Context, expected ocispec.Descriptor, r io.Reader, reference string) error {
	switch expected.MediaType {
	case spec.MediaTypeArtifactManifest, ocispec.MediaTypeImageManifest, ocispec.MediaTypeImageIndex:
		if state := s.repo.loadReferrersState(); state == referrersStateSupported {
			// referrers API is available, no client-side indexing needed
			return s.push(ctx, expected, r, reference)
		}

		if err := limitSize(expected, s.repo.MaxMetadataBytes); err != nil {
			return err
		}
		manifestJSON, err := content.ReadAll(r, expected)
		if err != nil {
			return err
		}
		if err := s.push(ctx, expected, bytes.NewReader(manifestJSON), reference); err != nil {
			return err
		}
		// check referrers API availability again after push
		if state := s.repo.loadReferrersState(); state == referrersStateSupported {
			// the subject has been processed the registry, no client-side
			// indexing needed
			return nil
		}
		return s.indexReferrersForPush(ctx, expected, manifestJSON)
	default:
		return s.push(ctx, expected, r, reference)
	}
}

// indexReferrersForPush indexes referrers for manifests with a subject field
// on manifest push.
//
// References:
//   - Latest spec: https://github.com/opencontainers/distribution-spec/blob/v1.1.1/spec.md#pushing-manifests-with-subject
//   - Compatible spec: https://github.com/opencontainers/distribution-spec/blob/v1.1.0-rc1/spec.md#pushing-manifests-with-subject
func (s *manifestStore) indexReferrersForPush(ctx context.Context, desc ocispec.Descriptor, manifestJSON []byte) error {
	var subject ocispec.Descriptor
	switch desc.MediaType {
	case spec.MediaTypeArtifactManifest:
		var manifest spec.Artifact
		if err := json.Unmarshal(manifestJSON, &manifest); err != nil {
			return fmt.Errorf("failed to decode manifest: %s: %s: %w", desc.Digest, desc.MediaType, err)
		}
		if manifest.Subject == nil {
			// no subject, no indexing needed
			return nil
		}
		subject = *manifest.Subject
		desc.ArtifactType = manifest.ArtifactType
		desc.Annotations = manifest.Annotations
	case ocispec.MediaTypeImageManifest:
		var manifest ocispec.Manifest
		if err := json.Unmarshal(manifestJSON, &manifest); err != nil {
			return fmt.Errorf("failed to decode manifest: %s: %s: %w", desc.Digest, desc.MediaType, err)
		}
		if manifest.Subject == nil {
			// no subject, no indexing needed
			return nil
		}
		subject = *manifest.Subject
		desc.ArtifactType = manifest.ArtifactType
		if desc.ArtifactType == "" {
			desc.ArtifactType = manifest.Config.MediaType
		}
		desc.Annotations = manifest.Annotations
	case ocispec.MediaTypeImageIndex:
		var manifest ocispec.Index
		if err := json.Unmarshal(manifestJSON, &manifest); err != nil {
			return fmt.Errorf("failed to decode manifest: %s: %s: %w", desc.Digest, desc.MediaType, err)
		}
		if manifest.Subject == nil {
			// no subject, no indexing needed
			return nil
		}
		subject = *manifest.Subject
		desc.ArtifactType = manifest.ArtifactType
		desc.Annotations = manifest.Annotations
	default:
		return nil
	}

	// if the manifest has a subject but the remote registry does not process it,
	// it means that the Referrers API is not supported by the registry.
	s.repo.SetReferrersCapability(false)
	return s.updateReferrersIndex(ctx, subject, referrerChange{desc, referrerOperationAdd})
}

// updateReferrersIndex updates the referrers index for desc referencing subject
// on manifest push and manifest delete.
// References:
//   - https://github.com/opencontainers/distribution-spec/blob/v1.1.1/spec.md#pushing-manifests-with-subject
//   - https://github.com/opencontainers/distribution-spec/blob/v1.1.1/spec.md#deleting-manifests
func (s *manifestStore) updateReferrersIndex(ctx context.Context, subject ocispec.Descriptor, change referrerChange) (err error) {
	referrersTag, err := buildReferrersTag(subject)
	if err != nil {
		return err
	}

	var oldIndexDesc *ocispec.Descriptor
	var oldReferrers []ocispec.Descriptor
	prepare := func() error {
		// 1. pull the original referrers list using the referrers tag schema
		indexDesc, referrers, err := s.repo.referrersFromIndex(ctx, referrersTag)
		if err != nil {
			if errors.Is(err, errdef.ErrNotFound) {
				// valid case: no old referrers index
				return nil
			}
			return err
		}
		oldIndexDesc = &indexDesc
		oldReferrers = referrers
		return nil
	}
	update := func(referrerChanges []referrerChange) error {
		// 2. apply the referrer changes on the referrers list
		updatedReferrers, err := applyReferrerChanges(oldReferrers, referrerChanges)
		if err != nil {
			if err == errNoReferrerUpdate {
				return nil
			}
			return err
		}

		// 3. push the updated referrers list using referrers tag schema
		if len(updatedReferrers) > 0 || s.repo.SkipReferrersGC {
			// push a new index in either case:
			// 1. the referrers list has been updated with a non-zero size
			// 2. OR the updated referrers list is empty but referrers GC
			//    is skipped, in this case an empty index should still be pushed
			//    as the old index won't get deleted
			newIndexDesc, newIndex, err := generateIndex(updatedReferrers)
			if err != nil {
				return fmt.Errorf("failed to generate referrers index for referrers tag %s: %w", referrersTag, err)
			}
			if err := s.push(ctx, newIndexDesc, bytes.NewReader(newIndex), referrersTag); err != nil {
				return fmt.Errorf("failed to push referrers index tagged by %s: %w", referrersTag, err)
			}
		}

		// 4. delete the dangling original referrers index, if applicable
		if s.repo.SkipReferrersGC || oldIndexDesc == nil {
			return nil
		}
		if err := s.repo.delete(ctx, *oldIndexDesc, true); err != nil {
			return &ReferrersError{
				Op:      opDeleteReferrersIndex,
				Err:     fmt.Errorf("failed to delete dangling referrers index %s for referrers tag %s: %w", oldIndexDesc.Digest.String(), referrersTag, err),
				Subject: subject,
			}
		}
		return nil
	}

	merge, done := s.repo.referrersMergePool.Get(referrersTag)
	defer done()
	return merge.Do(change, prepare, update)
}

// ParseReference parses a reference to a fully qualified reference.
func (s *manifestStore) ParseReference(reference string) (registry.Reference, error) {
	return s.repo.ParseReference(reference)
}

// generateDescriptor returns a descriptor generated from the response.
// See the truth table at the top of `repository_test.go`
func (s *manifestStore) generateDescriptor(resp *http.Response, ref registry.Reference, httpMethod string) (ocispec.Descriptor, error) {
	// 1. Validate Content-Type
	mediaType, _, err := mime.ParseMediaType(resp.Header.Get("Content-Type"))
	if err != nil {
		return ocispec.Descriptor{}, fmt.Errorf(
			"%s %q: invalid response `Content-Type` header; %w",
			resp.Request.Method,
			resp.Request.URL,
			err,
		)
	}

	// 2. Validate Size
	if resp.ContentLength == -1 {
		return ocispec.Descriptor{}, fmt.Errorf(
			"%s %q: unknown response Content-Length",
			resp.Request.Method,
			resp.Request.URL,
		)
	}

	// 3. Validate Client Reference
	var refDigest digest.Digest
	if d, err := ref.Digest(); err == nil {
		refDigest = d
	}

	// 4. Validate Server Digest (if present)
	var serverHeaderDigest digest.Digest
	if serverHeaderDigestStr := resp.Header.Get(headerDockerContentDigest); serverHeaderDigestStr != "" {
		if serverHeaderDigest, err = digest.Parse(serverHeaderDigestStr); err != nil {
			return ocispec.Descriptor{}, fmt.Errorf(
				"%s %q: invalid response header value: `%s: %s`; %w",
				resp.Request.Method,
				resp.Request.URL,
				headerDockerContentDigest,
				serverHeaderDigestStr,
				err,
			)
		}
	}

	/* 5. Now, look for specific error conditions; see truth table in method docstring */
	var contentDigest digest.Digest

	if len(serverHeaderDigest) == 0 {
		if httpMethod == http.MethodHead {
			if len(refDigest) == 0 {
				// HEAD without server `Docker-Content-Digest` header is an
				// immediate fail
				return ocispec.Descriptor{}, fmt.Errorf(
					"HTTP %s request missing required header %q",
					httpMethod, headerDockerContentDigest,
				)
			}
			// Otherwise, just trust the client-supplied digest
			contentDigest = refDigest
		} else {
			// GET without server `Docker-Content-Digest` header forces the
			// expensive calculation
			var calculatedDigest digest.Digest
			if calculatedDigest, err = calculateDigestFromResponse(resp, s.repo.MaxMetadataBytes); err != nil {
				return ocispec.Descriptor{}, fmt.Errorf("failed to calculate digest on response body; %w", err)
			}
			contentDigest = calculatedDigest
		}
	} else {
		contentDigest = serverHeaderDigest
	}

	if len(refDigest) > 0 && refDigest != contentDigest {
		return ocispec.Descriptor{}, fmt.Errorf(
			"%s %q: invalid response; digest mismatch in %s: received %q when expecting %q",
			resp.Request.Method, resp.Request.URL,
			headerDockerContentDigest, contentDigest,
			refDigest,
		)
	}

	// 6. Finally, if we made it this far, then all is good; return.
	return ocispec.Descriptor{
		MediaType: mediaType,
		Digest:    contentDigest,
		Size:      resp.ContentLength,
	}, nil
}

// calculateDigestFromResponse calculates the actual digest of the response body
// taking care not to destroy it in the process.
func calculateDigestFromResponse(resp *http.Response, maxMetadataBytes int64) (digest.Digest, error) {
	defer resp.Body.Close()

	body := limitReader(resp.Body, maxMetadataBytes)
	content, err := io.ReadAll(body)
	if err != nil {
		return "", fmt.Errorf("%s %q: failed to read response body: %w", resp.Request.Method, resp.Request.URL, err)
	}
	resp.Body = io.NopCloser(bytes.NewReader(content))

	return digest.FromBytes(content), nil
}

// verifyContentDigest verifies "Docker-Content-Digest" header if present.
// OCI distribution-spec states the Docker-Content-Digest header is optional.
// Reference: https://github.com/opencontainers/distribution-spec/blob/v1.0.1/spec.md#legacy-docker-support-http-headers
func verifyContentDigest(resp *http.Response, expected digest.Digest) error {
	digestStr := resp.Header.Get(headerDockerContentDigest)

	if len(digestStr) == 0 {
		return nil
	}

	contentDigest, err := digest.Parse(digestStr)
	if err != nil {
		return fmt.Errorf(
			"%s %q: invalid response header: `%s: %s`",
			resp.Request.Method, resp.Request.URL,
			headerDockerContentDigest, digestStr,
		)
	}

	if contentDigest != expected {
		return fmt.Errorf(
			"%s %q: invalid response; digest mismatch in %s: received %q when expecting %q",
			resp.Request.Method, resp.Request.URL,
			headerDockerContentDigest, contentDigest,
			expected,
		)
	}

	return nil
}

// generateIndex generates an image index containing the given manifests list.
func generateIndex(manifests []ocispec.Descriptor) (ocispec.Descriptor, []byte, error) {
	if manifests == nil {
		manifests = []ocispec.Descriptor{} // make it an empty array to prevent potential server-side bugs
	}
	index := ocispec.Index{
		Versioned: specs.Versioned{
			SchemaVersion: 2, // historical value. does not pertain to OCI or docker version
		},
		MediaType: ocispec.MediaTypeImageIndex,
		Manifests: manifests,
	}
	indexJSON, err := json.Marshal(index)
	if err != nil {
		return ocispec.Descriptor{}, nil, err
	}
	indexDesc := content.NewDescriptorFromBytes(index.MediaType, indexJSON)
	return indexDesc, indexJSON, nil
}
