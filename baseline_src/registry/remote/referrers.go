/*
Copyright The ORAS Authors.
Licensed under the Apache License, Version 2.0 (the "License");
you may not use this file except in compliance with the License.
You may obtain a copy of the License at

http://www.apache.org/licenses/LICENSE-2.0

Unless required by applicable law or agreed to in writing, software
distributed under the License is distributed on an "AS IS" BASIS,
WITHOUT WARRANTIES OR CONDITIONS OF ANY KIND, either express or implied.
See the License for the specific language governing permissions and
limitations under the License.
*/

package remote

import (
	"errors"
	"fmt"
	"strings"

	ocispec "github.com/opencontainers/image-spec/specs-go/v1"
	"oras.land/oras-go/v2/content"
	"oras.land/oras-go/v2/internal/descriptor"
)

// zeroDigest represents a digest that consists of zeros. zeroDigest is used
// for pinging Referrers API.
const zeroDigest = "sha256:0000000000000000000000000000000000000000000000000000000000000000"

// referrersState represents the state of Referrers API.
type referrersState = int32

const (
	// referrersStateUnknown represents an unknown state of Referrers API.
	referrersStateUnknown referrersState = iota
	// referrersStateSupported represents that the repository is known to
	// support Referrers API.
	referrersStateSupported
	// referrersStateUnsupported represents that the repository is known to
	// not support Referrers API.
	referrersStateUnsupported
)

// referrerOperation represents an operation on a referrer.
type referrerOperation = int32

const (
	// referrerOperationAdd represents an addition operation on a referrer.
	referrerOperationAdd referrerOperation = iota
	// referrerOperationRemove represents a removal operation on a referrer.
	referrerOperationRemove
)

// referrerChange represents a change on a referrer.
type referrerChange struct {
	referrer  ocispec.Descriptor
	operation referrerOperation
}

var (
	// ErrReferrersCapabilityAlreadySet is returned by SetReferrersCapability()
	// when the Referrers API capability has been already set.
	ErrReferrersCapabilityAlreadySet = errors.New("referrers capability cannot be changed once set")

	// errNoReferrerUpdate is returned by applyReferrerChanges() when there
	// is no any referrer update.
	errNoReferrerUpdate = errors.New("no referrer update")
)

const (
	// opDeleteReferrersIndex represents the operation for deleting a
	// referrers index.
	opDeleteReferrersIndex = "DeleteReferrersIndex"
)

// ReferrersError records an error and the operation and the subject descriptor.
type ReferrersError struct {
	// Op represents the failing operation.
	Op string
	// Subject is the descriptor of referenced artifact.
	Subject ocispec.Descriptor
	// Err is the entity of referrers error.
	Err error
}

// Error returns error msg of IgnorableError.
func (e *ReferrersError) Error() string {
	return e.Err.Error()
}

// Unwrap returns the inner error of IgnorableError.
func (e *ReferrersError) Unwrap() error {
	return errors.Unwrap(e.Err)
}

// IsIndexDelete tells if e is kind of error related to referrers
// index deletion.
func (e *ReferrersError) IsReferrersIndexDelete() bool {
	return e.Op == opDeleteReferrersIndex
}

// buildReferrersTag builds the referrers tag for the given manifest descriptor.
// Format: <algorithm>-<digest>
// Reference: https://github.com/opencontainers/distribution-spec/blob/v1.1.1/spec.md#unavailable-referrers-api
func buildReferrersTag(desc ocispec.Descriptor) (string, error) {
	if err := desc.Digest.Validate(); err != nil {
		return "", fmt.Errorf("failed to build referrers tag for %s: %w", desc.Digest, err)
	}
	alg := desc.Digest.Algorithm().String()
	encoded := desc.Digest.Encoded()
	return alg + "-" + encoded, nil
}

// isReferrersFilterApplied checks if requsted is in the applied filter list.
func isReferrersFilterApplied(applied, requested string) bool {
	if applied == "" || requested == "" {
		return false
	}
	filters := strings.Split(applied, ",")
	for _, f := range filters {
		if f == requested {
			return true
		}
	}
	return false
}

// filterReferrers filters a slice of referrers by artifactType in place.
// The returned slice contains matching referrers.
func filterReferrers(refs []ocispec.Descriptor, artifactType string) []ocispec.Descriptor {
	if artifactType == "" {
		return refs
	}
	var j int
	for i, ref := range refs {
		if ref.ArtifactType == artifactType {
			if i != j {
				refs[j] = ref
			}
			j++
		}
	}
	return refs[:j]
}

// applyReferrerChanges applies referrerChanges on referrers and returns the
// updated referrers.
// Returns errNoReferrerUpdate if there is no any referrers updates.
func applyReferrerChanges(referrers []ocispec.Descriptor, referrerChanges []referrerChange) ([]ocispec.Descriptor, error) {
	referrersMap := make(map[descriptor.Descriptor]int, len(referrers)+len(referrerChanges))
	updatedReferrers := make([]ocispec.Descriptor, 0, len(referrers)+len(referrerChanges))
	var updateRequired bool
	for _, r := range referrers {
		if content.Equal(r, ocispec.Descriptor{}) {
			// skip bad entry
			updateRequired = true
			continue
		}
		key := descriptor.FromOCI(r)
		if _, ok := referrersMap[key]; ok {
			// skip duplicates
			updateRequired = true
			continue
		}
		updatedReferrers = append(updatedReferrers, r)
		referrersMap[key] = len(updatedReferrers) - 1
	}

	// apply changes
	for _, change := range referrerChanges {
		key := descriptor.FromOCI(change.referrer)
		switch change.operation {
		case referrerOperationAdd:
			if _, ok := referrersMap[key]; !ok {
				// add distinct referrers
				updatedReferrers = append(updatedReferrers, change.referrer)
				referrersMap[key] = len(updatedReferrers) - 1
			}
		case referrerOperationRemove:
			if pos, ok := referrersMap[key]; ok {
				// remove referrers that are already in the map
				updatedReferrers[pos] = ocispec.Descriptor{}
				delete(referrersMap, key)
			}
		}
	}

	// skip unnecessary update
	if !updateRequired && len(referrersMap) == len(referrers) {
		// if the result referrer map contains the same content as the
		// original referrers, consider that there is no update on the
		// referrers.
		for _, r := range referrers {
			key := descriptor.FromOCI(r)
			if _, ok := referrersMap[key]; !ok {
				updateRequired = true
			}
		}
		if !updateRequired {
			return nil, errNoReferrerUpdate
		}
	}

	return removeEmptyDescriptors(updatedReferrers, len(referrersMap)), nil
}

// removeEmptyDescriptors in-place removes empty items from descs, given a hint
// of the number of non-empty descriptors.
func removeEmptyDescriptors(descs []ocispec.Descriptor, hint int) []ocispec.Descriptor {
	j := 0
	for i, r := range descs {
		if !content.Equal(r, ocispec.Descriptor{}) {
			if i > j {
				descs[j] = r
			}
			j++
		}
		if j == hint {
			break
		}
	}
	return descs[:j]
}
