/*
Copyright The ORAS Authors.
Licensed under the Apache License, Version 2.0 (the "License");
you may not use this file except in compliance with the License.
You may obtain a copy of the License at

http://www.apache.org/licenses/LICENSE-2.0

Unless required by applicable law or agreed to in writing, software
distributed under the License is distributed on an "AS IS" BASIS,
WITHOUT WARRANTIES OR CONDITIONS OF ANY KIND, either express or implied.
See the License for the specific language governing permissions and
limitations under the License.
*/

package remote

import (
	"errors"
	"fmt"
	"strconv"
	"strings"
)

const (
	// headerWarning is the "Warning" header.
	// Reference: https://www.rfc-editor.org/rfc/rfc7234#section-5.5
	headerWarning = "Warning"

	// warnCode299 is the 299 warn-code.
	// Reference: https://www.rfc-editor.org/rfc/rfc7234#section-5.5
	warnCode299 = 299

	// warnAgentUnknown represents an unknown warn-agent.
	// Reference: https://www.rfc-editor.org/rfc/rfc7234#section-5.5
	warnAgentUnknown = "-"
)

// errUnexpectedWarningFormat is returned by parseWarningHeader when
// an unexpected warning format is encountered.
var errUnexpectedWarningFormat = errors.New("unexpected warning format")

// WarningValue represents the value of the Warning header.
//
// References:
//   - https://github.com/opencontainers/distribution-spec/blob/v1.1.1/spec.md#warnings
//   - https://www.rfc-editor.org/rfc/rfc7234#section-5.5
type WarningValue struct {
	// Code is the warn-code.
	Code int
	// Agent is the warn-agent.
	Agent string
	// Text is the warn-text.
	Text string
}

// Warning contains the value of the warning header and may contain
// other information related to the warning.
//
// References:
//   - https://github.com/opencontainers/distribution-spec/blob/v1.1.1/spec.md#warnings
//   - https://www.rfc-editor.org/rfc/rfc7234#section-5.5
type Warning struct {
	// WarningValue is the value of the warning header.
	WarningValue
}

// parseWarningHeader parses the warning header into WarningValue.
func parseWarningHeader(header string) (WarningValue, error) {
	if len(header) < 9 || !strings.HasPrefix(header, `299 - "`) || !strings.HasSuffix(header, `"`) {
		// minimum header value: `299 - "x"`
		return WarningValue{}, fmt.Errorf("%s: %w", header, errUnexpectedWarningFormat)
	}

	// validate text only as code and agent are fixed
	quotedText := header[6:] // behind `299 - `, quoted by "
	text, err := strconv.Unquote(quotedText)
	if err != nil {
		return WarningValue{}, fmt.Errorf("%s: unexpected text: %w: %v", header, errUnexpectedWarningFormat, err)
	}

	return WarningValue{
		Code:  warnCode299,
		Agent: warnAgentUnknown,
		Text:  text,
	}, nil
}

// handleWarningHeaders parses the warning headers and handles the parsed
// warnings using handleWarning.
func handleWarningHeaders(headers []string, handleWarning func(Warning)) {
	for _, h := range headers {
		if value, err := parseWarningHeader(h); err == nil {
			// ignore warnings in unexpected formats
			handleWarning(Warning{
				WarningValue: value,
			})
		}
	}
}
