/*
Copyright The ORAS Authors.
Licensed under the Apache License, Version 2.0 (the "License");
you may not use this file except in compliance with the License.
You may obtain a copy of the License at

http://www.apache.org/licenses/LICENSE-2.0

Unless required by applicable law or agreed to in writing, software
distributed under the License is distributed on an "AS IS" BASIS,
WITHOUT WARRANTIES OR CONDITIONS OF ANY KIND, either express or implied.
See the License for the specific language governing permissions and
limitations under the License.
*/

// Package remote provides a client to the remote registry.
// Reference: https://github.com/distribution/distribution
package remote

import (
	"context"
	"encoding/json"
	"fmt"
	"net/http"
	"strconv"

	"oras.land/oras-go/v2/errdef"
	"oras.land/oras-go/v2/registry"
	"oras.land/oras-go/v2/registry/remote/auth"
	"oras.land/oras-go/v2/registry/remote/internal/errutil"
)

// RepositoryOptions is an alias of Repository to avoid name conflicts.
// It also hides all methods associated with Repository.
type RepositoryOptions Repository

// Registry is an HTTP client to a remote registry.
type Registry struct {
	// RepositoryOptions contains common options for Registry and Repository.
	// It is also used as a template for derived repositories.
	RepositoryOptions

	// RepositoryListPageSize specifies the page size when invoking the catalog
	// API.
	// If zero, the page size is determined by the remote registry.
	// Reference: https://docs.docker.com/registry/spec/api/#catalog
	RepositoryListPageSize int
}

// NewRegistry creates a client to the remote registry with the specified domain
// name.
// Example: localhost:5000
func NewRegistry(name string) (*Registry, error) {
	ref := registry.Reference{
		Registry: name,
	}
	if err := ref.ValidateRegistry(); err != nil {
		return nil, err
	}
	return &Registry{
		RepositoryOptions: RepositoryOptions{
			Reference: ref,
		},
	}, nil
}

// client returns an HTTP client used to access the remote registry.
// A default HTTP client is return if the client is not configured.
func (r *Registry) client() Client {
	if r.Client == nil {
		return auth.DefaultClient
	}
	return r.Client
}

// do sends an HTTP request and returns an HTTP response using the HTTP client
// returned by r.client().
func (r *Registry) do(req *http.Request) (*http.Response, error) {
	if r.HandleWarning == nil {
		return r.client().Do(req)
	}

	resp, err := r.client().Do(req)
	if err != nil {
		return nil, err
	}
	handleWarningHeaders(resp.Header.Values(headerWarning), r.HandleWarning)
	return resp, nil
}

// Ping checks whether or not the registry implement Docker Registry API V2 or
// OCI Distribution Specification.
// Ping can be used to check authentication when an auth client is configured.
//
// References:
//   - https://docs.docker.com/registry/spec/api/#base
//   - https://github.com/opencontainers/distribution-spec/blob/v1.1.1/spec.md#api
func (r *Registry) Ping(ctx context.Context) error {
	url := buildRegistryBaseURL(r.PlainHTTP, r.Reference)
	req, err := http.NewRequestWithContext(ctx, http.MethodGet, url, nil)
	if err != nil {
		return err
	}

	resp, err := r.do(req)
	if err != nil {
		return err
	}
	defer resp.Body.Close()

	switch resp.StatusCode {
	case http.StatusOK:
		return nil
	case http.StatusNotFound:
		return errdef.ErrNotFound
	default:
		return errutil.ParseErrorResponse(resp)
	}
}

// Repositories lists the name of repositories available in the registry.
// See also `RepositoryListPageSize`.
//
// If `last` is NOT empty, the entries in the response start after the
// repo specified by `last`. Otherwise, the response starts from the top
// of the Repositories list.
//
// Reference: https://docs.docker.com/registry/spec/api/#catalog
func (r *Registry) Repositories(ctx context.Context, last string, fn func(repos []string) error) error {
	ctx = auth.AppendScopesForHost(ctx, r.Reference.Host(), auth.ScopeRegistryCatalog)
	url := buildRegistryCatalogURL(r.PlainHTTP, r.Reference)
	var err error
	for err == nil {
		url, err = r.repositories(ctx, last, fn, url)
		// clear `last` for subsequent pages
		last = ""
	}
	if err != errNoLink {
		return err
	}
	return nil
}

// repositories returns a single page of repository list with the next link.
func (r *Registry) repositories(ctx context.Context, last string, fn func(repos []string) error, url string) (string, error) {
	req, err := http.NewRequestWithContext(ctx, http.MethodGet, url, nil)
	if err != nil {
		return "", err
	}
	if r.RepositoryListPageSize > 0 || last != "" {
		q := req.URL.Query()
		if r.RepositoryListPageSize > 0 {
			q.Set("n", strconv.Itoa(r.RepositoryListPageSize))
		}
		if last != "" {
			q.Set("last", last)
		}
		req.URL.RawQuery = q.Encode()
	}
	resp, err := r.do(req)
	if err != nil {
		return "", err
	}
	defer resp.Body.Close()

	if resp.StatusCode != http.StatusOK {
		return "", errutil.ParseErrorResponse(resp)
	}
	var page struct {
		Repositories []string `json:"repositories"`
	}
	lr := limitReader(resp.Body, r.MaxMetadataBytes)
	if err := json.NewDecoder(lr).Decode(&page); err != nil {
		return "", fmt.Errorf("%s %q: failed to decode response: %w", resp.Request.Method, resp.Request.URL, err)
	}
	if err := fn(page.Repositories); err != nil {
		return "", err
	}

	return parseLink(resp)
}

// Repository returns a repository reference by the given name.
func (r *Registry) Repository(ctx context.Context, name string) (registry.Repository, error) {
	ref := registry.Reference{
		Registry:   r.Reference.Registry,
		Repository: name,
	}
	return newRepositoryWithOptions(ref, &r.RepositoryOptions)
}
