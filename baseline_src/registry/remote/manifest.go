/*
Copyright The ORAS Authors.
Licensed under the Apache License, Version 2.0 (the "License");
you may not use this file except in compliance with the License.
You may obtain a copy of the License at

http://www.apache.org/licenses/LICENSE-2.0

Unless required by applicable law or agreed to in writing, software
distributed under the License is distributed on an "AS IS" BASIS,
WITHOUT WARRANTIES OR CONDITIONS OF ANY KIND, either express or implied.
See the License for the specific language governing permissions and
limitations under the License.
*/

package remote

import (
	"strings"

	ocispec "github.com/opencontainers/image-spec/specs-go/v1"
	"oras.land/oras-go/v2/internal/docker"
	"oras.land/oras-go/v2/internal/spec"
)

// defaultManifestMediaTypes contains the default set of manifests media types.
var defaultManifestMediaTypes = []string{
	docker.MediaTypeManifest,
	docker.MediaTypeManifestList,
	ocispec.MediaTypeImageManifest,
	ocispec.MediaTypeImageIndex,
	spec.MediaTypeArtifactManifest,
}

// defaultManifestAcceptHeader is the default set in the `Accept` header for
// resolving manifests from tags.
var defaultManifestAcceptHeader = strings.Join(defaultManifestMediaTypes, ", ")

// isManifest determines if the given descriptor points to a manifest.
func isManifest(manifestMediaTypes []string, desc ocispec.Descriptor) bool {
	if len(manifestMediaTypes) == 0 {
		manifestMediaTypes = defaultManifestMediaTypes
	}
	for _, mediaType := range manifestMediaTypes {
		if desc.MediaType == mediaType {
			return true
		}
	}
	return false
}

// manifestAcceptHeader generates the set in the `Accept` header for resolving
// manifests from tags.
func manifestAcceptHeader(manifestMediaTypes []string) string {
	if len(manifestMediaTypes) == 0 {
		return defaultManifestAcceptHeader
	}
	return strings.Join(manifestMediaTypes, ", ")
}
