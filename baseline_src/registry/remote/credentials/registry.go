/*
Copyright The ORAS Authors.
Licensed under the Apache License, Version 2.0 (the "License");
you may not use this file except in compliance with the License.
You may obtain a copy of the License at

http://www.apache.org/licenses/LICENSE-2.0

Unless required by applicable law or agreed to in writing, software
distributed under the License is distributed on an "AS IS" BASIS,
WITHOUT WARRANTIES OR CONDITIONS OF ANY KIND, either express or implied.
See the License for the specific language governing permissions and
limitations under the License.
*/

package credentials

import (
	"context"
	"errors"
	"fmt"

	"oras.land/oras-go/v2/registry/remote"
	"oras.land/oras-go/v2/registry/remote/auth"
)

// ErrClientTypeUnsupported is thrown by Login() when the registry's client type
// is not supported.
var ErrClientTypeUnsupported = errors.New("client type not supported")

// Login provides the login functionality with the given credentials. The target
// registry's client should be nil or of type *auth.Client. Login uses
// a client local to the function and will not modify the original client of
// the registry.
func Login(ctx context.Context, store Store, reg *remote.Registry, cred auth.Credential) error {
	// create a clone of the original registry for login purpose
	regClone := *reg
	// we use the original client if applicable, otherwise use a default client
	var authClient auth.Client
	if reg.Client == nil {
		authClient = *auth.DefaultClient
		authClient.Cache = nil // no cache
	} else if client, ok := reg.Client.(*auth.Client); ok {
		authClient = *client
	} else {
		return ErrClientTypeUnsupported
	}
	regClone.Client = &authClient
	// update credentials with the client
	authClient.Credential = auth.StaticCredential(reg.Reference.Registry, cred)
	// validate and store the credential
	if err := regClone.Ping(ctx); err != nil {
		return fmt.Errorf("failed to validate the credentials for %s: %w", regClone.Reference.Registry, err)
	}
	hostname := ServerAddressFromRegistry(regClone.Reference.Registry)
	if err := store.Put(ctx, hostname, cred); err != nil {
		return fmt.Errorf("failed to store the credentials for %s: %w", hostname, err)
	}
	return nil
}

// Logout provides the logout functionality given the registry name.
func Logout(ctx context.Context, store Store, registryName string) error {
	registryName = ServerAddressFromRegistry(registryName)
	if err := store.Delete(ctx, registryName); err != nil {
		return fmt.Errorf("failed to delete the credential for %s: %w", registryName, err)
	}
	return nil
}

// Credential returns a Credential() function that can be used by auth.Client.
func Credential(store Store) auth.CredentialFunc {
	return func(ctx context.Context, hostport string) (auth.Credential, error) {
		hostport = ServerAddressFromHostname(hostport)
		if hostport == "" {
			return auth.EmptyCredential, nil
		}
		return store.Get(ctx, hostport)
	}
}

// ServerAddressFromRegistry maps a registry to a server address, which is used as
// a key for credentials store. The Docker CLI expects that the credentials of
// the registry 'docker.io' will be added under the key "https://index.docker.io/v1/".
// See: https://github.com/moby/moby/blob/v24.0.2/registry/config.go#L25-L48
func ServerAddressFromRegistry(registry string) string {
	if registry == "docker.io" {
		return "https://index.docker.io/v1/"
	}
	return registry
}

// ServerAddressFromHostname maps a hostname to a server address, which is used as
// a key for credentials store. It is expected that the traffic targetting the
// host "registry-1.docker.io" will be redirected to "https://index.docker.io/v1/".
// See: https://github.com/moby/moby/blob/v24.0.2/registry/config.go#L25-L48
func ServerAddressFromHostname(hostname string) string {
	if hostname == "registry-1.docker.io" {
		return "https://index.docker.io/v1/"
	}
	return hostname
}
