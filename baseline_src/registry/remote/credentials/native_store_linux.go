/*
Copyright The ORAS Authors.
Licensed under the Apache License, Version 2.0 (the "License");
you may not use this file except in compliance with the License.
You may obtain a copy of the License at

http://www.apache.org/licenses/LICENSE-2.0

Unless required by applicable law or agreed to in writing, software
distributed under the License is distributed on an "AS IS" BASIS,
WITHOUT WARRANTIES OR CONDITIONS OF ANY KIND, either express or implied.
See the License for the specific language governing permissions and
limitations under the License.
*/

package credentials

import "os/exec"

// getPlatformDefaultHelperSuffix returns the platform default credential
// helper suffix.
// Reference: https://docs.docker.com/engine/reference/commandline/login/#default-behavior
func getPlatformDefaultHelperSuffix() string {
	if _, err := exec.LookPath("pass"); err == nil {
		return "pass"
	}

	return "secretservice"
}
