/*
Copyright The ORAS Authors.
Licensed under the Apache License, Version 2.0 (the "License");
you may not use this file except in compliance with the License.
You may obtain a copy of the License at

http://www.apache.org/licenses/LICENSE-2.0

Unless required by applicable law or agreed to in writing, software
distributed under the License is distributed on an "AS IS" BASIS,
WITHOUT WARRANTIES OR CONDITIONS OF ANY KIND, either express or implied.
See the License for the specific language governing permissions and
limitations under the License.
*/

// Package credentials supports reading, saving, and removing credentials from
// Docker configuration files and external credential stores that follow
// the Docker credential helper protocol.
//
// Reference: https://docs.docker.com/engine/reference/commandline/login/#credential-stores
package credentials

import (
	"context"
	"fmt"
	"os"
	"path/filepath"

	"oras.land/oras-go/v2/internal/syncutil"
	"oras.land/oras-go/v2/registry/remote/auth"
	"oras.land/oras-go/v2/registry/remote/credentials/internal/config"
)

const (
	dockerConfigDirEnv   = "DOCKER_CONFIG"
	dockerConfigFileDir  = ".docker"
	dockerConfigFileName = "config.json"
)

// Store is the interface that any credentials store must implement.
type Store interface {
	// Get retrieves credentials from the store for the given server address.
	Get(ctx context.Context, serverAddress string) (auth.Credential, error)
	// Put saves credentials into the store for the given server address.
	Put(ctx context.Context, serverAddress string, cred auth.Credential) error
	// Delete removes credentials from the store for the given server address.
	Delete(ctx context.Context, serverAddress string) error
}

// DynamicStore dynamically determines which store to use based on the settings
// in the config file.
type DynamicStore struct {
	config             *config.Config
	options            StoreOptions
	detectedCredsStore string
	setCredsStoreOnce  syncutil.OnceOrRetry
}

// StoreOptions provides options for NewStore.
type StoreOptions struct {
	// AllowPlaintextPut allows saving credentials in plaintext in the config
	// file.
	//   - If AllowPlaintextPut is set to false (default value), Put() will
	//     return an error when native store is not available.
	//   - If AllowPlaintextPut is set to true, Put() will save credentials in
	//     plaintext in the config file when native store is not available.
	AllowPlaintextPut bool

	// DetectDefaultNativeStore enables detecting the platform-default native
	// credentials store when the config file has no authentication information.
	//
	// If DetectDefaultNativeStore is set to true, the store will detect and set
	// the default native credentials store in the "credsStore" field of the
	// config file.
	//   - Windows: "wincred"
	//   - Linux: "pass" or "secretservice"
	//   - macOS: "osxkeychain"
	//
	// References:
	//   - https://docs.docker.com/engine/reference/commandline/login/#credentials-store
	//   - https://docs.docker.com/engine/reference/commandline/cli/#docker-cli-configuration-file-configjson-properties
	DetectDefaultNativeStore bool
}

// NewStore returns a Store based on the given configuration file.
//
// For Get(), Put() and Delete(), the returned Store will dynamically determine
// which underlying credentials store to use for the given server address.
// The underlying credentials store is determined in the following order:
//  1. Native server-specific credential helper
//  2. Native credentials store
//  3. The plain-text config file itself
//
// References:
//   - https://docs.docker.com/engine/reference/commandline/login/#credentials-store
//   - https://docs.docker.com/engine/reference/commandline/cli/#docker-cli-configuration-file-configjson-properties
func NewStore(configPath string, opts StoreOptions) (*DynamicStore, error) {
	cfg, err := config.Load(configPath)
	if err != nil {
		return nil, err
	}
	ds := &DynamicStore{
		config:  cfg,
		options: opts,
	}
	if opts.DetectDefaultNativeStore && !cfg.IsAuthConfigured() {
		// no authentication configured, detect the default credentials store
		ds.detectedCredsStore = getDefaultHelperSuffix()
	}
	return ds, nil
}

// NewStoreFromDocker returns a Store based on the default docker config file.
//   - If the $DOCKER_CONFIG environment variable is set,
//     $DOCKER_CONFIG/config.json will be used.
//   - Otherwise, the default location $HOME/.docker/config.json will be used.
//
// NewStoreFromDocker internally calls [NewStore].
//
// References:
//   - https://docs.docker.com/engine/reference/commandline/cli/#configuration-files
//   - https://docs.docker.com/engine/reference/commandline/cli/#change-the-docker-directory
func NewStoreFromDocker(opt StoreOptions) (*DynamicStore, error) {
	configPath, err := getDockerConfigPath()
	if err != nil {
		return nil, err
	}
	return NewStore(configPath, opt)
}

// Get retrieves credentials from the store for the given server address.
func (ds *DynamicStore) Get(ctx context.Context, serverAddress string) (auth.Credential, error) {
	return ds.getStore(serverAddress).Get(ctx, serverAddress)
}

// Put saves credentials into the store for the given server address.
// Put returns ErrPlaintextPutDisabled if native store is not available and
// [StoreOptions].AllowPlaintextPut is set to false.
func (ds *DynamicStore) Put(ctx context.Context, serverAddress string, cred auth.Credential) error {
	if err := ds.getStore(serverAddress).Put(ctx, serverAddress, cred); err != nil {
		return err
	}
	// save the detected creds store back to the config file on first put
	return ds.setCredsStoreOnce.Do(func() error {
		if ds.detectedCredsStore != "" {
			if err := ds.config.SetCredentialsStore(ds.detectedCredsStore); err != nil {
				return fmt.Errorf("failed to set credsStore: %w", err)
			}
		}
		return nil
	})
}

// Delete removes credentials from the store for the given server address.
func (ds *DynamicStore) Delete(ctx context.Context, serverAddress string) error {
	return ds.getStore(serverAddress).Delete(ctx, serverAddress)
}

// IsAuthConfigured returns whether there is authentication configured in the
// config file or not.
//
// IsAuthConfigured returns true when:
//   - The "credsStore" field is not empty
//   - Or the "credHelpers" field is not empty
//   - Or there is any entry in the "auths" field
func (ds *DynamicStore) IsAuthConfigured() bool {
	return ds.config.IsAuthConfigured()
}

// ConfigPath returns the path to the config file.
func (ds *DynamicStore) ConfigPath() string {
	return ds.config.Path()
}

// getHelperSuffix returns the credential helper suffix for the given server
// address.
func (ds *DynamicStore) getHelperSuffix(serverAddress string) string {
	// 1. Look for a server-specific credential helper first
	if helper := ds.config.GetCredentialHelper(serverAddress); helper != "" {
		return helper
	}
	// 2. Then look for the configured native store
	if credsStore := ds.config.CredentialsStore(); credsStore != "" {
		return credsStore
	}
	// 3. Use the detected default store
	return ds.detectedCredsStore
}

// getStore returns a store for the given server address.
func (ds *DynamicStore) getStore(serverAddress string) Store {
	if helper := ds.getHelperSuffix(serverAddress); helper != "" {
		return NewNativeStore(helper)
	}

	fs := newFileStore(ds.config)
	fs.DisablePut = !ds.options.AllowPlaintextPut
	return fs
}

// getDockerConfigPath returns the path to the default docker config file.
func getDockerConfigPath() (string, error) {
	// first try the environment variable
	configDir := os.Getenv(dockerConfigDirEnv)
	if configDir == "" {
		// then try home directory
		homeDir, err := os.UserHomeDir()
		if err != nil {
			return "", fmt.Errorf("failed to get user home directory: %w", err)
		}
		configDir = filepath.Join(homeDir, dockerConfigFileDir)
	}
	return filepath.Join(configDir, dockerConfigFileName), nil
}

// storeWithFallbacks is a store that has multiple fallback stores.
type storeWithFallbacks struct {
	stores []Store
}

// NewStoreWithFallbacks returns a new store based on the given stores.
//   - Get() searches the primary and the fallback stores
//     for the credentials and returns when it finds the
//     credentials in any of the stores.
//   - Put() saves the credentials into the primary store.
//   - Delete() deletes the credentials from the primary store.
func NewStoreWithFallbacks(primary Store, fallbacks ...Store) Store {
	if len(fallbacks) == 0 {
		return primary
	}
	return &storeWithFallbacks{
		stores: append([]Store{primary}, fallbacks...),
	}
}

// Get retrieves credentials from the StoreWithFallbacks for the given server.
// It searches the primary and the fallback stores for the credentials of serverAddress
// and returns when it finds the credentials in any of the stores.
func (sf *storeWithFallbacks) Get(ctx context.Context, serverAddress string) (auth.Credential, error) {
	for _, s := range sf.stores {
		cred, err := s.Get(ctx, serverAddress)
		if err != nil {
			return auth.EmptyCredential, err
		}
		if cred != auth.EmptyCredential {
			return cred, nil
		}
	}
	return auth.EmptyCredential, nil
}

// Put saves credentials into the StoreWithFallbacks. It puts
// the credentials into the primary store.
func (sf *storeWithFallbacks) Put(ctx context.Context, serverAddress string, cred auth.Credential) error {
	return sf.stores[0].Put(ctx, serverAddress, cred)
}

// Delete removes credentials from the StoreWithFallbacks for the given server.
// It deletes the credentials from the primary store.
func (sf *storeWithFallbacks) Delete(ctx context.Context, serverAddress string) error {
	return sf.stores[0].Delete(ctx, serverAddress)
}
