/*
Copyright The ORAS Authors.
Licensed under the Apache License, Version 2.0 (the "License");
you may not use this file except in compliance with the License.
You may obtain a copy of the License at

http://www.apache.org/licenses/LICENSE-2.0

Unless required by applicable law or agreed to in writing, software
distributed under the License is distributed on an "AS IS" BASIS,
WITHOUT WARRANTIES OR CONDITIONS OF ANY KIND, either express or implied.
See the License for the specific language governing permissions and
limitations under the License.
*/

package credentials

import (
	"bytes"
	"context"
	"encoding/json"
	"os/exec"
	"strings"

	"oras.land/oras-go/v2/registry/remote/auth"
	"oras.land/oras-go/v2/registry/remote/credentials/internal/executer"
)

const (
	remoteCredentialsPrefix       = "docker-credential-"
	emptyUsername                 = "<token>"
	errCredentialsNotFoundMessage = "credentials not found in native keychain"
)

// dockerCredentials mimics how docker credential helper binaries store
// credential information.
// Reference:
//   - https://docs.docker.com/engine/reference/commandline/login/#credential-helper-protocol
type dockerCredentials struct {
	ServerURL string `json:"ServerURL"`
	Username  string `json:"Username"`
	Secret    string `json:"Secret"`
}

// nativeStore implements a credentials store using native keychain to keep
// credentials secure.
type nativeStore struct {
	exec executer.Executer
}

// NewNativeStore creates a new native store that uses a remote helper program to
// manage credentials.
//
// The argument of NewNativeStore can be the native keychains
// ("wincred" for Windows, "pass" for linux and "osxkeychain" for macOS),
// or any program that follows the docker-credentials-helper protocol.
//
// Reference:
//   - https://docs.docker.com/engine/reference/commandline/login#credentials-store
func NewNativeStore(helperSuffix string) Store {
	return &nativeStore{
		exec: executer.New(remoteCredentialsPrefix + helperSuffix),
	}
}

// NewDefaultNativeStore returns a native store based on the platform-default
// docker credentials helper and a bool indicating if the native store is
// available.
//   - Windows: "wincred"
//   - Linux: "pass" or "secretservice"
//   - macOS: "osxkeychain"
//
// Reference:
//   - https://docs.docker.com/engine/reference/commandline/login/#credentials-store
func NewDefaultNativeStore() (Store, bool) {
	if helper := getDefaultHelperSuffix(); helper != "" {
		return NewNativeStore(helper), true
	}
	return nil, false
}

// Get retrieves credentials from the store for the given server.
func (ns *nativeStore) Get(ctx context.Context, serverAddress string) (auth.Credential, error) {
	var cred auth.Credential
	out, err := ns.exec.Execute(ctx, strings.NewReader(serverAddress), "get")
	if err != nil {
		if err.Error() == errCredentialsNotFoundMessage {
			// do not return an error if the credentials are not in the keychain.
			return auth.EmptyCredential, nil
		}
		return auth.EmptyCredential, err
	}
	var dockerCred dockerCredentials
	if err := json.Unmarshal(out, &dockerCred); err != nil {
		return auth.EmptyCredential, err
	}
	// bearer auth is used if the username is "<token>"
	if dockerCred.Username == emptyUsername {
		cred.RefreshToken = dockerCred.Secret
	} else {
		cred.Username = dockerCred.Username
		cred.Password = dockerCred.Secret
	}
	return cred, nil
}

// Put saves credentials into the store.
func (ns *nativeStore) Put(ctx context.Context, serverAddress string, cred auth.Credential) error {
	dockerCred := &dockerCredentials{
		ServerURL: serverAddress,
		Username:  cred.Username,
		Secret:    cred.Password,
	}
	if cred.RefreshToken != "" {
		dockerCred.Username = emptyUsername
		dockerCred.Secret = cred.RefreshToken
	}
	credJSON, err := json.Marshal(dockerCred)
	if err != nil {
		return err
	}
	_, err = ns.exec.Execute(ctx, bytes.NewReader(credJSON), "store")
	return err
}

// Delete removes credentials from the store for the given server.
func (ns *nativeStore) Delete(ctx context.Context, serverAddress string) error {
	_, err := ns.exec.Execute(ctx, strings.NewReader(serverAddress), "erase")
	return err
}

// getDefaultHelperSuffix returns the default credential helper suffix.
func getDefaultHelperSuffix() string {
	platformDefault := getPlatformDefaultHelperSuffix()
	if _, err := exec.LookPath(remoteCredentialsPrefix + platformDefault); err == nil {
		return platformDefault
	}
	return ""
}
