/*
   Copyright The ORAS Authors.
   Licensed under the Apache License, Version 2.0 (the "License");
   you may not use this file except in compliance with the License.
   You may obtain a copy of the License at

   http://www.apache.org/licenses/LICENSE-2.0

   Unless required by applicable law or agreed to in writing, software
   distributed under the License is distributed on an "AS IS" BASIS,
   WITHOUT WARRANTIES OR CONDITIONS OF ANY KIND, either express or implied.
   See the License for the specific language governing permissions and
   limitations under the License.
*/

package credentials

import (
	"context"
	"encoding/json"
	"fmt"
	"sync"

	"oras.land/oras-go/v2/registry/remote/auth"
	"oras.land/oras-go/v2/registry/remote/credentials/internal/config"
)

// memoryStore is a store that keeps credentials in memory.
type memoryStore struct {
	store sync.Map
}

// NewMemoryStore creates a new in-memory credentials store.
func NewMemoryStore() Store {
	return &memoryStore{}
}

// NewMemoryStoreFromDockerConfig creates a new in-memory credentials store from the given configuration.
//
// Reference: https://docs.docker.com/engine/reference/commandline/cli/#docker-cli-configuration-file-configjson-properties
func NewMemoryStoreFromDockerConfig(c []byte) (Store, error) {
	cfg := struct {
		Auths map[string]config.AuthConfig `json:"auths"`
	}{}
	if err := json.Unmarshal(c, &cfg); err != nil {
		return nil, fmt.Errorf("failed to unmarshal auth field: %w: %v", config.ErrInvalidConfigFormat, err)
	}

	s := &memoryStore{}
	for addr, auth := range cfg.Auths {
		// Normalize the auth key to hostname.
		hostname := config.ToHostname(addr)
		cred, err := auth.Credential()
		if err != nil {
			return nil, err
		}
		_, _ = s.store.LoadOrStore(hostname, cred)
	}
	return s, nil
}

// Get retrieves credentials from the store for the given server address.
func (ms *memoryStore) Get(_ context.Context, serverAddress string) (auth.Credential, error) {
	cred, found := ms.store.Load(serverAddress)
	if !found {
		return auth.EmptyCredential, nil
	}
	return cred.(auth.Credential), nil
}

// Put saves credentials into the store for the given server address.
func (ms *memoryStore) Put(_ context.Context, serverAddress string, cred auth.Credential) error {
	ms.store.Store(serverAddress, cred)
	return nil
}

// Delete removes credentials from the store for the given server address.
func (ms *memoryStore) Delete(_ context.Context, serverAddress string) error {
	ms.store.Delete(serverAddress)
	return nil
}
