/*
Copyright The ORAS Authors.
Licensed under the Apache License, Version 2.0 (the "License");
you may not use this file except in compliance with the License.
You may obtain a copy of the License at

http://www.apache.org/licenses/LICENSE-2.0

Unless required by applicable law or agreed to in writing, software
distributed under the License is distributed on an "AS IS" BASIS,
WITHOUT WARRANTIES OR CONDITIONS OF ANY KIND, either express or implied.
See the License for the specific language governing permissions and
limitations under the License.
*/

package config

import (
	"bytes"
	"encoding/base64"
	"encoding/json"
	"errors"
	"fmt"
	"os"
	"path/filepath"
	"strings"
	"sync"

	"oras.land/oras-go/v2/registry/remote/auth"
	"oras.land/oras-go/v2/registry/remote/credentials/internal/ioutil"
)

const (
	// configFieldAuths is the "auths" field in the config file.
	// Reference: https://github.com/docker/cli/blob/v24.0.0-beta.2/cli/config/configfile/file.go#L19
	configFieldAuths = "auths"
	// configFieldCredentialsStore is the "credsStore" field in the config file.
	configFieldCredentialsStore = "credsStore"
	// configFieldCredentialHelpers is the "credHelpers" field in the config file.
	configFieldCredentialHelpers = "credHelpers"
)

// ErrInvalidConfigFormat is returned when the config format is invalid.
var ErrInvalidConfigFormat = errors.New("invalid config format")

// AuthConfig contains authorization information for connecting to a Registry.
// References:
//   - https://github.com/docker/cli/blob/v24.0.0-beta.2/cli/config/configfile/file.go#L17-L45
//   - https://github.com/docker/cli/blob/v24.0.0-beta.2/cli/config/types/authconfig.go#L3-L22
type AuthConfig struct {
	// Auth is a base64-encoded string of "{username}:{password}".
	Auth string `json:"auth,omitempty"`
	// IdentityToken is used to authenticate the user and get an access token
	// for the registry.
	IdentityToken string `json:"identitytoken,omitempty"`
	// RegistryToken is a bearer token to be sent to a registry.
	RegistryToken string `json:"registrytoken,omitempty"`

	Username string `json:"username,omitempty"` // legacy field for compatibility
	Password string `json:"password,omitempty"` // legacy field for compatibility
}

// NewAuthConfig creates an authConfig based on cred.
func NewAuthConfig(cred auth.Credential) AuthConfig {
	return AuthConfig{
		Auth:          encodeAuth(cred.Username, cred.Password),
		IdentityToken: cred.RefreshToken,
		RegistryToken: cred.AccessToken,
	}
}

// Credential returns an auth.Credential based on ac.
func (ac AuthConfig) Credential() (auth.Credential, error) {
	cred := auth.Credential{
		Username:     ac.Username,
		Password:     ac.Password,
		RefreshToken: ac.IdentityToken,
		AccessToken:  ac.RegistryToken,
	}
	if ac.Auth != "" {
		var err error
		// override username and password
		cred.Username, cred.Password, err = decodeAuth(ac.Auth)
		if err != nil {
			return auth.EmptyCredential, fmt.Errorf("failed to decode auth field: %w: %v", ErrInvalidConfigFormat, err)
		}
	}
	return cred, nil
}

// Config represents a docker configuration file.
// References:
//   - https://docs.docker.com/engine/reference/commandline/cli/#docker-cli-configuration-file-configjson-properties
//   - https://github.com/docker/cli/blob/v24.0.0-beta.2/cli/config/configfile/file.go#L17-L44
type Config struct {
	// path is the path to the config file.
	path string
	// rwLock is a read-write-lock for the file store.
	rwLock sync.RWMutex
	// content is the content of the config file.
	// Reference: https://github.com/docker/cli/blob/v24.0.0-beta.2/cli/config/configfile/file.go#L17-L44
	content map[string]json.RawMessage
	// authsCache is a cache of the auths field of the config.
	// Reference: https://github.com/docker/cli/blob/v24.0.0-beta.2/cli/config/configfile/file.go#L19
	authsCache map[string]json.RawMessage
	// credentialsStore is the credsStore field of the config.
	// Reference: https://github.com/docker/cli/blob/v24.0.0-beta.2/cli/config/configfile/file.go#L28
	credentialsStore string
	// credentialHelpers is the credHelpers field of the config.
	// Reference: https://github.com/docker/cli/blob/v24.0.0-beta.2/cli/config/configfile/file.go#L29
	credentialHelpers map[string]string
}

// Load loads Config from the given config path.
func Load(configPath string) (*Config, error) {
	cfg := &Config{path: configPath}
	configFile, err := os.Open(configPath)
	if err != nil {
		if os.IsNotExist(err) {
			// init content and caches if the content file does not exist
			cfg.content = make(map[string]json.RawMessage)
			cfg.authsCache = make(map[string]json.RawMessage)
			return cfg, nil
		}
		return nil, fmt.Errorf("failed to open config file at %s: %w", configPath, err)
	}
	defer configFile.Close()

	// decode config content if the config file exists
	if err := json.NewDecoder(configFile).Decode(&cfg.content); err != nil {
		return nil, fmt.Errorf("failed to decode config file at %s: %w: %v", configPath, ErrInvalidConfigFormat, err)
	}

	if credsStoreBytes, ok := cfg.content[configFieldCredentialsStore]; ok {
		if err := json.Unmarshal(credsStoreBytes, &cfg.credentialsStore); err != nil {
			return nil, fmt.Errorf("failed to unmarshal creds store field: %w: %v", ErrInvalidConfigFormat, err)
		}
	}

	if credHelpersBytes, ok := cfg.content[configFieldCredentialHelpers]; ok {
		if err := json.Unmarshal(credHelpersBytes, &cfg.credentialHelpers); err != nil {
			return nil, fmt.Errorf("failed to unmarshal cred helpers field: %w: %v", ErrInvalidConfigFormat, err)
		}
	}

	if authsBytes, ok := cfg.content[configFieldAuths]; ok {
		if err := json.Unmarshal(authsBytes, &cfg.authsCache); err != nil {
			return nil, fmt.Errorf("failed to unmarshal auths field: %w: %v", ErrInvalidConfigFormat, err)
		}
	}
	if cfg.authsCache == nil {
		cfg.authsCache = make(map[string]json.RawMessage)
	}

	return cfg, nil
}

// GetAuthConfig returns an auth.Credential for serverAddress.
func (cfg *Config) GetCredential(serverAddress string) (auth.Credential, error) {
	cfg.rwLock.RLock()
	defer cfg.rwLock.RUnlock()

	authCfgBytes, ok := cfg.authsCache[serverAddress]
	if !ok {
		// NOTE: the auth key for the server address may have been stored with
		// a http/https prefix in legacy config files, e.g. "registry.example.com"
		// can be stored as "https://registry.example.com/".
		var matched bool
		for addr, auth := range cfg.authsCache {
			if ToHostname(addr) == serverAddress {
				matched = true
				authCfgBytes = auth
				break
			}
		}
		if !matched {
			return auth.EmptyCredential, nil
		}
	}
	var authCfg AuthConfig
	if err := json.Unmarshal(authCfgBytes, &authCfg); err != nil {
		return auth.EmptyCredential, fmt.Errorf("failed to unmarshal auth field: %w: %v", ErrInvalidConfigFormat, err)
	}
	return authCfg.Credential()
}

// PutAuthConfig puts cred for serverAddress.
func (cfg *Config) PutCredential(serverAddress string, cred auth.Credential) error {
	cfg.rwLock.Lock()
	defer cfg.rwLock.Unlock()

	authCfg := NewAuthConfig(cred)
	authCfgBytes, err := json.Marshal(authCfg)
	if err != nil {
		return fmt.Errorf("failed to marshal auth field: %w", err)
	}
	cfg.authsCache[serverAddress] = authCfgBytes
	return cfg.saveFile()
}

// DeleteAuthConfig deletes the corresponding credential for serverAddress.
func (cfg *Config) DeleteCredential(serverAddress string) error {
	cfg.rwLock.Lock()
	defer cfg.rwLock.Unlock()

	if _, ok := cfg.authsCache[serverAddress]; !ok {
		// no ops
		return nil
	}
	delete(cfg.authsCache, serverAddress)
	return cfg.saveFile()
}

// GetCredentialHelper returns the credential helpers for serverAddress.
func (cfg *Config) GetCredentialHelper(serverAddress string) string {
	return cfg.credentialHelpers[serverAddress]
}

// CredentialsStore returns the configured credentials store.
func (cfg *Config) CredentialsStore() string {
	cfg.rwLock.RLock()
	defer cfg.rwLock.RUnlock()

	return cfg.credentialsStore
}

// Path returns the path to the config file.
func (cfg *Config) Path() string {
	return cfg.path
}

// SetCredentialsStore puts the configured credentials store.
func (cfg *Config) SetCredentialsStore(credsStore string) error {
	cfg.rwLock.Lock()
	defer cfg.rwLock.Unlock()

	cfg.credentialsStore = credsStore
	return cfg.saveFile()
}

// IsAuthConfigured returns whether there is authentication configured in this
// config file or not.
func (cfg *Config) IsAuthConfigured() bool {
	return cfg.credentialsStore != "" ||
		len(cfg.credentialHelpers) > 0 ||
		len(cfg.authsCache) > 0
}

// saveFile saves Config into the file.
func (cfg *Config) saveFile() (returnErr error) {
	// marshal content
	// credentialHelpers is skipped as it's never set
	if cfg.credentialsStore != "" {
		credsStoreBytes, err := json.Marshal(cfg.credentialsStore)
		if err != nil {
			return fmt.Errorf("failed to marshal creds store: %w", err)
		}
		cfg.content[configFieldCredentialsStore] = credsStoreBytes
	} else {
		// omit empty
		delete(cfg.content, configFieldCredentialsStore)
	}
	authsBytes, err := json.Marshal(cfg.authsCache)
	if err != nil {
		return fmt.Errorf("failed to marshal credentials: %w", err)
	}
	cfg.content[configFieldAuths] = authsBytes
	jsonBytes, err := json.MarshalIndent(cfg.content, "", "\t")
	if err != nil {
		return fmt.Errorf("failed to marshal config: %w", err)
	}

	// write the content to a ingest file for atomicity
	configDir := filepath.Dir(cfg.path)
	if err := os.MkdirAll(configDir, 0700); err != nil {
		return fmt.Errorf("failed to make directory %s: %w", configDir, err)
	}
	ingest, err := ioutil.Ingest(configDir, bytes.NewReader(jsonBytes))
	if err != nil {
		return fmt.Errorf("failed to save config file: %w", err)
	}
	defer func() {
		if returnErr != nil {
			// clean up the ingest file in case of error
			os.Remove(ingest)
		}
	}()

	// overwrite the config file
	if err := os.Rename(ingest, cfg.path); err != nil {
		return fmt.Errorf("failed to save config file: %w", err)
	}
	return nil
}

// encodeAuth base64-encodes username and password into base64(username:password).
func encodeAuth(username, password string) string {
	if username == "" && password == "" {
		return ""
	}
	return base64.StdEncoding.EncodeToString([]byte(username + ":" + password))
}

// decodeAuth decodes a base64 encoded string and returns username and password.
func decodeAuth(authStr string) (username string, password string, err error) {
	if authStr == "" {
		return "", "", nil
	}

	decoded, err := base64.StdEncoding.DecodeString(authStr)
	if err != nil {
		return "", "", err
	}
	decodedStr := string(decoded)
	username, password, ok := strings.Cut(decodedStr, ":")
	if !ok {
		return "", "", fmt.Errorf("auth '%s' does not conform the base64(username:password) format", decodedStr)
	}
	return username, password, nil
}

// ToHostname normalizes a server address to just its hostname, removing
// the scheme and the path parts.
// It is used to match keys in the auths map, which may be either stored as
// hostname or as hostname including scheme (in legacy docker config files).
// Reference: https://github.com/docker/cli/blob/v24.0.6/cli/config/credentials/file_store.go#L71
func ToHostname(addr string) string {
	addr = strings.TrimPrefix(addr, "http://")
	addr = strings.TrimPrefix(addr, "https://")
	addr, _, _ = strings.Cut(addr, "/")
	return addr
}
