/*
Copyright The ORAS Authors.
Licensed under the Apache License, Version 2.0 (the "License");
you may not use this file except in compliance with the License.
You may obtain a copy of the License at

http://www.apache.org/licenses/LICENSE-2.0

Unless required by applicable law or agreed to in writing, software
distributed under the License is distributed on an "AS IS" BASIS,
WITHOUT WARRANTIES OR CONDITIONS OF ANY KIND, either express or implied.
See the License for the specific language governing permissions and
limitations under the License.
*/

package ioutil

import (
	"fmt"
	"io"
	"os"
)

// Ingest writes content into a temporary ingest file with the file name format
// "oras_credstore_temp_{randomString}".
func Ingest(dir string, content io.Reader) (path string, ingestErr error) {
	tempFile, err := os.CreateTemp(dir, "oras_credstore_temp_*")
	if err != nil {
		return "", fmt.Errorf("failed to create ingest file: %w", err)
	}
	path = tempFile.Name()
	defer func() {
		if err := tempFile.Close(); err != nil && ingestErr == nil {
			ingestErr = fmt.Errorf("failed to close ingest file: %w", err)
		}
		// remove the temp file in case of error.
		if ingestErr != nil {
			os.Remove(path)
		}
	}()

	if err := tempFile.Chmod(0600); err != nil {
		return "", fmt.Errorf("failed to ensure permission: %w", err)
	}
	if _, err := io.Copy(tempFile, content); err != nil {
		return "", fmt.Errorf("failed to ingest: %w", err)
	}
	return
}
