/*
Copyright The ORAS Authors.
Licensed under the Apache License, Version 2.0 (the "License");
you may not use this file except in compliance with the License.
You may obtain a copy of the License at

http://www.apache.org/licenses/LICENSE-2.0

Unless required by applicable law or agreed to in writing, software
distributed under the License is distributed on an "AS IS" BASIS,
WITHOUT WARRANTIES OR CONDITIONS OF ANY KIND, either express or implied.
See the License for the specific language governing permissions and
limitations under the License.
*/

package credentials

import (
	"context"
	"errors"
	"fmt"
	"strings"

	"oras.land/oras-go/v2/registry/remote/auth"
	"oras.land/oras-go/v2/registry/remote/credentials/internal/config"
)

// FileStore implements a credentials store using the docker configuration file
// to keep the credentials in plain-text.
//
// Reference: https://docs.docker.com/engine/reference/commandline/cli/#docker-cli-configuration-file-configjson-properties
type FileStore struct {
	// DisablePut disables putting credentials in plaintext.
	// If DisablePut is set to true, Put() will return ErrPlaintextPutDisabled.
	DisablePut bool

	config *config.Config
}

var (
	// ErrPlaintextPutDisabled is returned by Put() when DisablePut is set
	// to true.
	ErrPlaintextPutDisabled = errors.New("putting plaintext credentials is disabled")
	// ErrBadCredentialFormat is returned by Put() when the credential format
	// is bad.
	ErrBadCredentialFormat = errors.New("bad credential format")
)

// NewFileStore creates a new file credentials store.
//
// Reference: https://docs.docker.com/engine/reference/commandline/cli/#docker-cli-configuration-file-configjson-properties
func NewFileStore(configPath string) (*FileStore, error) {
	cfg, err := config.Load(configPath)
	if err != nil {
		return nil, err
	}
	return newFileStore(cfg), nil
}

// newFileStore creates a file credentials store based on the given config instance.
func newFileStore(cfg *config.Config) *FileStore {
	return &FileStore{config: cfg}
}

// Get retrieves credentials from the store for the given server address.
func (fs *FileStore) Get(_ context.Context, serverAddress string) (auth.Credential, error) {
	return fs.config.GetCredential(serverAddress)
}

// Put saves credentials into the store for the given server address.
// Returns ErrPlaintextPutDisabled if fs.DisablePut is set to true.
func (fs *FileStore) Put(_ context.Context, serverAddress string, cred auth.Credential) error {
	if fs.DisablePut {
		return ErrPlaintextPutDisabled
	}
	if err := validateCredentialFormat(cred); err != nil {
		return err
	}

	return fs.config.PutCredential(serverAddress, cred)
}

// Delete removes credentials from the store for the given server address.
func (fs *FileStore) Delete(_ context.Context, serverAddress string) error {
	return fs.config.DeleteCredential(serverAddress)
}

// validateCredentialFormat validates the format of cred.
func validateCredentialFormat(cred auth.Credential) error {
	if strings.ContainsRune(cred.Username, ':') {
		// Username and password will be encoded in the base64(username:password)
		// format in the file. The decoded result will be wrong if username
		// contains colon(s).
		return fmt.Errorf("%w: colons(:) are not allowed in username", ErrBadCredentialFormat)
	}
	return nil
}
