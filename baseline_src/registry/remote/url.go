/*
Copyright The ORAS Authors.
Licensed under the Apache License, Version 2.0 (the "License");
you may not use this file except in compliance with the License.
You may obtain a copy of the License at

http://www.apache.org/licenses/LICENSE-2.0

Unless required by applicable law or agreed to in writing, software
distributed under the License is distributed on an "AS IS" BASIS,
WITHOUT WARRANTIES OR CONDITIONS OF ANY KIND, either express or implied.
See the License for the specific language governing permissions and
limitations under the License.
*/

package remote

import (
	"fmt"
	"net/url"
	"strings"

	"github.com/opencontainers/go-digest"
	"oras.land/oras-go/v2/registry"
)

// buildScheme returns HTTP scheme used to access the remote registry.
func buildScheme(plainHTTP bool) string {
	if plainHTTP {
		return "http"
	}
	return "https"
}

// buildRegistryBaseURL builds the URL for accessing the base API.
// Format: <scheme>://<registry>/v2/
// Reference: https://docs.docker.com/registry/spec/api/#base
func buildRegistryBaseURL(plainHTTP bool, ref registry.Reference) string {
	return fmt.Sprintf("%s://%s/v2/", buildScheme(plainHTTP), ref.Host())
}

// buildRegistryCatalogURL builds the URL for accessing the catalog API.
// Format: <scheme>://<registry>/v2/_catalog
// Reference: https://docs.docker.com/registry/spec/api/#catalog
func buildRegistryCatalogURL(plainHTTP bool, ref registry.Reference) string {
	return fmt.Sprintf("%s://%s/v2/_catalog", buildScheme(plainHTTP), ref.Host())
}

// buildRepositoryBaseURL builds the base endpoint of the remote repository.
// Format: <scheme>://<registry>/v2/<repository>
func buildRepositoryBaseURL(plainHTTP bool, ref registry.Reference) string {
	return fmt.Sprintf("%s://%s/v2/%s", buildScheme(plainHTTP), ref.Host(), ref.Repository)
}

// buildRepositoryTagListURL builds the URL for accessing the tag list API.
// Format: <scheme>://<registry>/v2/<repository>/tags/list
// Reference: https://docs.docker.com/registry/spec/api/#tags
func buildRepositoryTagListURL(plainHTTP bool, ref registry.Reference) string {
	return buildRepositoryBaseURL(plainHTTP, ref) + "/tags/list"
}

// buildRepositoryManifestURL builds the URL for accessing the manifest API.
// Format: <scheme>://<registry>/v2/<repository>/manifests/<digest_or_tag>
// Reference: https://docs.docker.com/registry/spec/api/#manifest
func buildRepositoryManifestURL(plainHTTP bool, ref registry.Reference) string {
	return strings.Join([]string{
		buildRepositoryBaseURL(plainHTTP, ref),
		"manifests",
		ref.Reference,
	}, "/")
}

// buildRepositoryBlobURL builds the URL for accessing the blob API.
// Format: <scheme>://<registry>/v2/<repository>/blobs/<digest>
// Reference: https://docs.docker.com/registry/spec/api/#blob
func buildRepositoryBlobURL(plainHTTP bool, ref registry.Reference) string {
	return strings.Join([]string{
		buildRepositoryBaseURL(plainHTTP, ref),
		"blobs",
		ref.Reference,
	}, "/")
}

// buildRepositoryBlobUploadURL builds the URL for blob uploading.
// Format: <scheme>://<registry>/v2/<repository>/blobs/uploads/
// Reference: https://docs.docker.com/registry/spec/api/#initiate-blob-upload
func buildRepositoryBlobUploadURL(plainHTTP bool, ref registry.Reference) string {
	return buildRepositoryBaseURL(plainHTTP, ref) + "/blobs/uploads/"
}

// buildRepositoryBlobMountURLbuilds the URL for cross-repository mounting.
// Format: <scheme>://<registry>/v2/<repository>/blobs/uploads/?mount=<digest>&from=<other_repository>
// Reference: https://docs.docker.com/registry/spec/api/#blob
func buildRepositoryBlobMountURL(plainHTTP bool, ref registry.Reference, d digest.Digest, fromRepo string) string {
	return fmt.Sprintf("%s?mount=%s&from=%s",
		buildRepositoryBlobUploadURL(plainHTTP, ref),
		d,
		fromRepo,
	)
}

// buildReferrersURL builds the URL for querying the Referrers API.
// Format: <scheme>://<registry>/v2/<repository>/referrers/<digest>?artifactType=<artifactType>
// Reference: https://github.com/opencontainers/distribution-spec/blob/v1.1.1/spec.md#listing-referrers
func buildReferrersURL(plainHTTP bool, ref registry.Reference, artifactType string) string {
	var query string
	if artifactType != "" {
		v := url.Values{}
		v.Set("artifactType", artifactType)
		query = "?" + v.Encode()
	}

	return fmt.Sprintf(
		"%s/referrers/%s%s",
		buildRepositoryBaseURL(plainHTTP, ref),
		ref.Reference,
		query,
	)
}
