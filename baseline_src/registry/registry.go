/*
Copyright The ORAS Authors.
Licensed under the Apache License, Version 2.0 (the "License");
you may not use this file except in compliance with the License.
You may obtain a copy of the License at

http://www.apache.org/licenses/LICENSE-2.0

Unless required by applicable law or agreed to in writing, software
distributed under the License is distributed on an "AS IS" BASIS,
WITHOUT WARRANTIES OR CONDITIONS OF ANY KIND, either express or implied.
See the License for the specific language governing permissions and
limitations under the License.
*/

// Package registry provides high-level operations to manage registries.
package registry

import "context"

// Registry represents a collection of repositories.
type Registry interface {
	// Repositories lists the name of repositories available in the registry.
	// Since the returned repositories may be paginated by the underlying
	// implementation, a function should be passed in to process the paginated
	// repository list.
	// `last` argument is the `last` parameter when invoking the catalog API.
	// If `last` is NOT empty, the entries in the response start after the
	// repo specified by `last`. Otherwise, the response starts from the top
	// of the Repositories list.
	// Note: When implemented by a remote registry, the catalog API is called.
	// However, not all registries supports pagination or conforms the
	// specification.
	// Reference: https://docs.docker.com/registry/spec/api/#catalog
	// See also `Repositories()` in this package.
	Repositories(ctx context.Context, last string, fn func(repos []string) error) error

	// Repository returns a repository reference by the given name.
	Repository(ctx context.Context, name string) (Repository, error)
}

// Repositories lists the name of repositories available in the registry.
func Repositories(ctx context.Context, reg Registry) ([]string, error) {
	var res []string
	if err := reg.Repositories(ctx, "", func(repos []string) error {
		res = append(res, repos...)
		return nil
	}); err != nil {
		return nil, err
	}
	return res, nil
}
