/*
Copyright The ORAS Authors.
Licensed under the Apache License, Version 2.0 (the "License");
you may not use this file except in compliance with the License.
You may obtain a copy of the License at

http://www.apache.org/licenses/LICENSE-2.0

Unless required by applicable law or agreed to in writing, software
distributed under the License is distributed on an "AS IS" BASIS,
WITHOUT WARRANTIES OR CONDITIONS OF ANY KIND, either express or implied.
See the License for the specific language governing permissions and
limitations under the License.
*/

package registry

import (
	"context"
	"encoding/json"
	"fmt"
	"io"

	ocispec "github.com/opencontainers/image-spec/specs-go/v1"
	"oras.land/oras-go/v2/content"
	"oras.land/oras-go/v2/errdef"
	"oras.land/oras-go/v2/internal/descriptor"
	"oras.land/oras-go/v2/internal/spec"
)

// Repository is an ORAS target and an union of the blob and the manifest CASs.
//
// As specified by https://docs.docker.com/registry/spec/api/, it is natural to
// assume that content.Resolver interface only works for manifests. Tagging a
// blob may be resulted in an `ErrUnsupported` error. However, this interface
// does not restrict tagging blobs.
//
// Since a repository is an union of the blob and the manifest CASs, all
// operations defined in the `BlobStore` are executed depending on the media
// type of the given descriptor accordingly.
//
// Furthermore, this interface also provides the ability to enforce the
// separation of the blob and the manifests CASs.
type Repository interface {
	content.Storage
	content.Deleter
	content.TagResolver
	ReferenceFetcher
	ReferencePusher
	ReferrerLister
	TagLister

	// Blobs provides access to the blob CAS only, which contains config blobs,
	// layers, and other generic blobs.
	Blobs() BlobStore

	// Manifests provides access to the manifest CAS only.
	Manifests() ManifestStore
}

// BlobStore is a CAS with the ability to stat and delete its content.
type BlobStore interface {
	content.Storage
	content.Deleter
	content.Resolver
	ReferenceFetcher
}

// ManifestStore is a CAS with the ability to stat and delete its content.
// Besides, ManifestStore provides reference tagging.
type ManifestStore interface {
	BlobStore
	content.Tagger
	ReferencePusher
}

// ReferencePusher provides advanced push with the tag service.
type ReferencePusher interface {
	// PushReference pushes the manifest with a reference tag.
	PushReference(ctx context.Context, expected ocispec.Descriptor, content io.Reader, reference string) error
}

// ReferenceFetcher provides advanced fetch with the tag service.
type ReferenceFetcher interface {
	// FetchReference fetches the content identified by the reference.
	FetchReference(ctx context.Context, reference string) (ocispec.Descriptor, io.ReadCloser, error)
}

// ReferrerLister provides the Referrers API.
// Reference: https://github.com/opencontainers/distribution-spec/blob/v1.1.1/spec.md#listing-referrers
type ReferrerLister interface {
	Referrers(ctx context.Context, desc ocispec.Descriptor, artifactType string, fn func(referrers []ocispec.Descriptor) error) error
}

// TagLister lists tags by the tag service.
type TagLister interface {
	// Tags lists the tags available in the repository.
	// Since the returned tag list may be paginated by the underlying
	// implementation, a function should be passed in to process the paginated
	// tag list.
	//
	// `last` argument is the `last` parameter when invoking the tags API.
	// If `last` is NOT empty, the entries in the response start after the
	// tag specified by `last`. Otherwise, the response starts from the top
	// of the Tags list.
	//
	// Note: When implemented by a remote registry, the tags API is called.
	// However, not all registries supports pagination or conforms the
	// specification.
	//
	// References:
	//   - https://github.com/opencontainers/distribution-spec/blob/v1.1.1/spec.md#content-discovery
	//   - https://docs.docker.com/registry/spec/api/#tags
	// See also `Tags()` in this package.
	Tags(ctx context.Context, last string, fn func(tags []string) error) error
}

// Mounter allows cross-repository blob mounts.
// For backward compatibility reasons, this is not implemented by
// BlobStore: use a type assertion to check availability.
type Mounter interface {
	// Mount makes the blob with the given descriptor in fromRepo
	// available in the repository signified by the receiver.
	Mount(ctx context.Context,
		desc ocispec.Descriptor,
		fromRepo string,
		getContent func() (io.ReadCloser, error),
	) error
}

// Tags lists the tags available in the repository.
func Tags(ctx context.Context, repo TagLister) ([]string, error) {
	var res []string
	if err := repo.Tags(ctx, "", func(tags []string) error {
		res = append(res, tags...)
		return nil
	}); err != nil {
		return nil, err
	}
	return res, nil
}

// Referrers lists the descriptors of image or artifact manifests directly
// referencing the given manifest descriptor.
//
// Reference: https://github.com/opencontainers/distribution-spec/blob/v1.1.1/spec.md#listing-referrers
func Referrers(ctx context.Context, store content.ReadOnlyGraphStorage, desc ocispec.Descriptor, artifactType string) ([]ocispec.Descriptor, error) {
	if !descriptor.IsManifest(desc) {
		return nil, fmt.Errorf("the descriptor %v is not a manifest: %w", desc, errdef.ErrUnsupported)
	}

	var results []ocispec.Descriptor

	// use the Referrer API if it is available
	if rf, ok := store.(ReferrerLister); ok {
		if err := rf.Referrers(ctx, desc, artifactType, func(referrers []ocispec.Descriptor) error {
			results = append(results, referrers...)
			return nil
		}); err != nil {
			return nil, err
		}
		return results, nil
	}

	predecessors, err := store.Predecessors(ctx, desc)
	if err != nil {
		return nil, err
	}
	for _, node := range predecessors {
		switch node.MediaType {
		case ocispec.MediaTypeImageManifest:
			fetched, err := content.FetchAll(ctx, store, node)
			if err != nil {
				return nil, err
			}
			var manifest ocispec.Manifest
			if err := json.Unmarshal(fetched, &manifest); err != nil {
				return nil, err
			}
			if manifest.Subject == nil || !content.Equal(*manifest.Subject, desc) {
				continue
			}
			node.ArtifactType = manifest.ArtifactType
			if node.ArtifactType == "" {
				node.ArtifactType = manifest.Config.MediaType
			}
			node.Annotations = manifest.Annotations
		case ocispec.MediaTypeImageIndex:
			fetched, err := content.FetchAll(ctx, store, node)
			if err != nil {
				return nil, err
			}
			var index ocispec.Index
			if err := json.Unmarshal(fetched, &index); err != nil {
				return nil, err
			}
			if index.Subject == nil || !content.Equal(*index.Subject, desc) {
				continue
			}
			node.ArtifactType = index.ArtifactType
			node.Annotations = index.Annotations
		case spec.MediaTypeArtifactManifest:
			fetched, err := content.FetchAll(ctx, store, node)
			if err != nil {
				return nil, err
			}
			var artifact spec.Artifact
			if err := json.Unmarshal(fetched, &artifact); err != nil {
				return nil, err
			}
			if artifact.Subject == nil || !content.Equal(*artifact.Subject, desc) {
				continue
			}
			node.ArtifactType = artifact.ArtifactType
			node.Annotations = artifact.Annotations
		default:
			continue
		}
		if artifactType == "" || artifactType == node.ArtifactType {
			// the field artifactType in referrers descriptor is allowed to be empty
			// https://github.com/opencontainers/distribution-spec/issues/458
			results = append(results, node)
		}
	}
	return results, nil
}
