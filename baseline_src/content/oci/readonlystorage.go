/*
Copyright The ORAS Authors.
Licensed under the Apache License, Version 2.0 (the "License");
you may not use this file except in compliance with the License.
You may obtain a copy of the License at

http://www.apache.org/licenses/LICENSE-2.0

Unless required by applicable law or agreed to in writing, software
distributed under the License is distributed on an "AS IS" BASIS,
WITHOUT WARRANTIES OR CONDITIONS OF ANY KIND, either express or implied.
See the License for the specific language governing permissions and
limitations under the License.
*/

package oci

import (
	"context"
	"errors"
	"fmt"
	"io"
	"io/fs"
	"path"

	"github.com/opencontainers/go-digest"
	ocispec "github.com/opencontainers/image-spec/specs-go/v1"
	"oras.land/oras-go/v2/errdef"
	"oras.land/oras-go/v2/internal/fs/tarfs"
)

// ReadOnlyStorage is a read-only CAS based on file system with the OCI-Image
// layout.
// Reference: https://github.com/opencontainers/image-spec/blob/v1.1.1/image-layout.md
type ReadOnlyStorage struct {
	fsys fs.FS
}

// NewStorageFromFS creates a new read-only CAS from fsys.
func NewStorageFromFS(fsys fs.FS) *ReadOnlyStorage {
	return &ReadOnlyStorage{
		fsys: fsys,
	}
}

// NewStorageFromTar creates a new read-only CAS from a tar archive located at
// path.
func NewStorageFromTar(path string) (*ReadOnlyStorage, error) {
	tfs, err := tarfs.New(path)
	if err != nil {
		return nil, err
	}
	return NewStorageFromFS(tfs), nil
}

// Fetch fetches the content identified by the descriptor.
func (s *ReadOnlyStorage) Fetch(_ context.Context, target ocispec.Descriptor) (io.ReadCloser, error) {
	path, err := blobPath(target.Digest)
	if err != nil {
		return nil, fmt.Errorf("%s: %s: %w", target.Digest, target.MediaType, errdef.ErrInvalidDigest)
	}

	fp, err := s.fsys.Open(path)
	if err != nil {
		if errors.Is(err, fs.ErrNotExist) {
			return nil, fmt.Errorf("%s: %s: %w", target.Digest, target.MediaType, errdef.ErrNotFound)
		}
		return nil, err
	}

	return fp, nil
}

// Exists returns true if the described content Exists.
func (s *ReadOnlyStorage) Exists(_ context.Context, target ocispec.Descriptor) (bool, error) {
	path, err := blobPath(target.Digest)
	if err != nil {
		return false, fmt.Errorf("%s: %s: %w", target.Digest, target.MediaType, errdef.ErrInvalidDigest)
	}

	_, err = fs.Stat(s.fsys, path)
	if err != nil {
		if errors.Is(err, fs.ErrNotExist) {
			return false, nil
		}
		return false, err
	}

	return true, nil
}

// blobPath calculates blob path from the given digest.
func blobPath(dgst digest.Digest) (string, error) {
	if err := dgst.Validate(); err != nil {
		return "", fmt.Errorf("cannot calculate blob path from invalid digest %s: %w: %v",
			dgst.String(), errdef.ErrInvalidDigest, err)
	}
	return path.Join(ocispec.ImageBlobsDir, dgst.Algorithm().String(), dgst.Encoded()), nil
}
