/*
Copyright The ORAS Authors.
Licensed under the Apache License, Version 2.0 (the "License");
you may not use this file except in compliance with the License.
You may obtain a copy of the License at

http://www.apache.org/licenses/LICENSE-2.0

Unless required by applicable law or agreed to in writing, software
distributed under the License is distributed on an "AS IS" BASIS,
WITHOUT WARRANTIES OR CONDITIONS OF ANY KIND, either express or implied.
See the License for the specific language governing permissions and
limitations under the License.
*/

package oci

import (
	"context"
	"encoding/json"
	"errors"
	"fmt"
	"io"
	"io/fs"
	"slices"

	"github.com/opencontainers/go-digest"
	ocispec "github.com/opencontainers/image-spec/specs-go/v1"
	"oras.land/oras-go/v2/content"
	"oras.land/oras-go/v2/errdef"
	"oras.land/oras-go/v2/internal/descriptor"
	"oras.land/oras-go/v2/internal/fs/tarfs"
	"oras.land/oras-go/v2/internal/graph"
	"oras.land/oras-go/v2/internal/resolver"
)

// ReadOnlyStore implements `oras.ReadonlyTarget`, and represents a read-only
// content store based on file system with the OCI-Image layout.
// Reference: https://github.com/opencontainers/image-spec/blob/v1.1.1/image-layout.md
type ReadOnlyStore struct {
	fsys        fs.FS
	storage     content.ReadOnlyStorage
	tagResolver *resolver.Memory
	graph       *graph.Memory
}

// NewFromFS creates a new read-only OCI store from fsys.
func NewFromFS(ctx context.Context, fsys fs.FS) (*ReadOnlyStore, error) {
	store := &ReadOnlyStore{
		fsys:        fsys,
		storage:     NewStorageFromFS(fsys),
		tagResolver: resolver.NewMemory(),
		graph:       graph.NewMemory(),
	}

	if err := store.validateOCILayoutFile(); err != nil {
		return nil, fmt.Errorf("invalid OCI Image Layout: %w", err)
	}
	if err := store.loadIndexFile(ctx); err != nil {
		return nil, fmt.Errorf("invalid OCI Image Index: %w", err)
	}

	return store, nil
}

// NewFromTar creates a new read-only OCI store from a tar archive located at
// path.
func NewFromTar(ctx context.Context, path string) (*ReadOnlyStore, error) {
	tfs, err := tarfs.New(path)
	if err != nil {
		return nil, err
	}
	return NewFromFS(ctx, tfs)
}

// Fetch fetches the content identified by the descriptor.
func (s *ReadOnlyStore) Fetch(ctx context.Context, target ocispec.Descriptor) (io.ReadCloser, error) {
	return s.storage.Fetch(ctx, target)
}

// Exists returns true if the described content exists.
func (s *ReadOnlyStore) Exists(ctx context.Context, target ocispec.Descriptor) (bool, error) {
	return s.storage.Exists(ctx, target)
}

// Resolve resolves a reference to a descriptor.
//   - If the reference to be resolved is a tag, the returned descriptor will be
//     a full descriptor declared by github.com/opencontainers/image-spec/specs-go/v1.
//   - If the reference is a digest, the returned descriptor will be a
//     plain descriptor (containing only the digest, media type and size).
func (s *ReadOnlyStore) Resolve(ctx context.Context, reference string) (ocispec.Descriptor, error) {
	if reference == "" {
		return ocispec.Descriptor{}, errdef.ErrMissingReference
	}

	// attempt resolving manifest
	desc, err := s.tagResolver.Resolve(ctx, reference)
	if err != nil {
		if errors.Is(err, errdef.ErrNotFound) {
			// attempt resolving blob
			return resolveBlob(s.fsys, reference)
		}
		return ocispec.Descriptor{}, err
	}

	if reference == desc.Digest.String() {
		return descriptor.Plain(desc), nil
	}

	return desc, nil
}

// Predecessors returns the nodes directly pointing to the current node.
// Predecessors returns nil without error if the node does not exists in the
// store.
func (s *ReadOnlyStore) Predecessors(ctx context.Context, node ocispec.Descriptor) ([]ocispec.Descriptor, error) {
	return s.graph.Predecessors(ctx, node)
}

// Tags lists the tags presented in the `index.json` file of the OCI layout,
// returned in ascending order.
// If `last` is NOT empty, the entries in the response start after the tag
// specified by `last`. Otherwise, the response starts from the top of the tags
// list.
//
// See also `Tags()` in the package `registry`.
func (s *ReadOnlyStore) Tags(ctx context.Context, last string, fn func(tags []string) error) error {
	return listTags(s.tagResolver, last, fn)
}

// validateOCILayoutFile validates the `oci-layout` file.
func (s *ReadOnlyStore) validateOCILayoutFile() error {
	layoutFile, err := s.fsys.Open(ocispec.ImageLayoutFile)
	if err != nil {
		return fmt.Errorf("failed to open OCI layout file: %w", err)
	}
	defer layoutFile.Close()

	var layout ocispec.ImageLayout
	err = json.NewDecoder(layoutFile).Decode(&layout)
	if err != nil {
		return fmt.Errorf("failed to decode OCI layout file: %w", err)
	}
	return validateOCILayout(&layout)
}

// validateOCILayout validates layout.
func validateOCILayout(layout *ocispec.ImageLayout) error {
	if layout.Version != ocispec.ImageLayoutVersion {
		return errdef.ErrUnsupportedVersion
	}
	return nil
}

// loadIndexFile reads index.json from s.fsys.
func (s *ReadOnlyStore) loadIndexFile(ctx context.Context) error {
	indexFile, err := s.fsys.Open(ocispec.ImageIndexFile)
	if err != nil {
		return fmt.Errorf("failed to open index file: %w", err)
	}
	defer indexFile.Close()

	var index ocispec.Index
	if err := json.NewDecoder(indexFile).Decode(&index); err != nil {
		return fmt.Errorf("failed to decode index file: %w", err)
	}
	return loadIndex(ctx, &index, s.storage, s.tagResolver, s.graph)
}

// loadIndex loads index into memory.
func loadIndex(ctx context.Context, index *ocispec.Index, fetcher content.Fetcher, tagger content.Tagger, graph *graph.Memory) error {
	for _, desc := range index.Manifests {
		if err := tagger.Tag(ctx, deleteAnnotationRefName(desc), desc.Digest.String()); err != nil {
			return err
		}
		if ref := desc.Annotations[ocispec.AnnotationRefName]; ref != "" {
			if err := tagger.Tag(ctx, desc, ref); err != nil {
				return err
			}
		}
		plain := descriptor.Plain(desc)
		if err := graph.IndexAll(ctx, fetcher, plain); err != nil {
			return err
		}
	}
	return nil
}

// resolveBlob returns a descriptor describing the blob identified by dgst.
func resolveBlob(fsys fs.FS, dgst string) (ocispec.Descriptor, error) {
	path, err := blobPath(digest.Digest(dgst))
	if err != nil {
		if errors.Is(err, errdef.ErrInvalidDigest) {
			return ocispec.Descriptor{}, errdef.ErrNotFound
		}
		return ocispec.Descriptor{}, err
	}
	fi, err := fs.Stat(fsys, path)
	if err != nil {
		if errors.Is(err, fs.ErrNotExist) {
			return ocispec.Descriptor{}, errdef.ErrNotFound
		}
		return ocispec.Descriptor{}, err
	}

	return ocispec.Descriptor{
		MediaType: descriptor.DefaultMediaType,
		Size:      fi.Size(),
		Digest:    digest.Digest(dgst),
	}, nil
}

// listTags returns the tags in ascending order.
// If `last` is NOT empty, the entries in the response start after the tag
// specified by `last`. Otherwise, the response starts from the top of the tags
// list.
//
// See also `Tags()` in the package `registry`.
func listTags(tagResolver *resolver.Memory, last string, fn func(tags []string) error) error {
	var tags []string

	tagMap := tagResolver.Map()
	for tag, desc := range tagMap {
		if tag == desc.Digest.String() {
			continue
		}
		if last != "" && tag <= last {
			continue
		}
		tags = append(tags, tag)
	}
	slices.Sort(tags)

	return fn(tags)
}

// deleteAnnotationRefName deletes the AnnotationRefName from the annotation map
// of desc.
func deleteAnnotationRefName(desc ocispec.Descriptor) ocispec.Descriptor {
	if _, ok := desc.Annotations[ocispec.AnnotationRefName]; !ok {
		// no ops
		return desc
	}

	size := len(desc.Annotations) - 1
	if size == 0 {
		desc.Annotations = nil
		return desc
	}

	annotations := make(map[string]string, size)
	for k, v := range desc.Annotations {
		if k != ocispec.AnnotationRefName {
			annotations[k] = v
		}
	}
	desc.Annotations = annotations
	return desc
}
