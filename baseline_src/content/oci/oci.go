/*
Copyright The ORAS Authors.
Licensed under the Apache License, Version 2.0 (the "License");
you may not use this file except in compliance with the License.
You may obtain a copy of the License at

http://www.apache.org/licenses/LICENSE-2.0

Unless required by applicable law or agreed to in writing, software
distributed under the License is distributed on an "AS IS" BASIS,
WITHOUT WARRANTIES OR CONDITIONS OF ANY KIND, either express or implied.
See the License for the specific language governing permissions and
limitations under the License.
*/

// Package oci provides access to an OCI content store.
// Reference: https://github.com/opencontainers/image-spec/blob/v1.1.1/image-layout.md
package oci

import (
	"context"
	"encoding/json"
	"errors"
	"fmt"
	"io"
	"maps"
	"os"
	"path"
	"path/filepath"
	"strconv"
	"sync"
	"sync/atomic"

	"github.com/opencontainers/go-digest"
	specs "github.com/opencontainers/image-spec/specs-go"
	ocispec "github.com/opencontainers/image-spec/specs-go/v1"
	"oras.land/oras-go/v2/content"
	"oras.land/oras-go/v2/errdef"
	"oras.land/oras-go/v2/internal/container/set"
	"oras.land/oras-go/v2/internal/descriptor"
	"oras.land/oras-go/v2/internal/graph"
	"oras.land/oras-go/v2/internal/manifestutil"
	"oras.land/oras-go/v2/internal/resolver"
	"oras.land/oras-go/v2/registry"
)

// Store implements `oras.Target`, and represents a content store
// based on file system with the OCI-Image layout.
// Reference: https://github.com/opencontainers/image-spec/blob/v1.1.1/image-layout.md
type Store struct {
	// AutoSaveIndex controls if the OCI store will automatically save the index
	// file when needed.
	//   - If AutoSaveIndex is set to true, the OCI store will automatically save
	//     the changes to `index.json` when
	//      1. pushing a manifest
	//      2. calling Tag() or Delete()
	//   - If AutoSaveIndex is set to false, it's the caller's responsibility
	//     to manually call SaveIndex() when needed.
	//   - Default value: true.
	AutoSaveIndex bool

	// AutoGC controls if the OCI store will automatically clean dangling
	// (unreferenced) blobs created by the Delete() operation. This includes the
	// referrers and the unreferenced successor blobs of the deleted content.
	// Tagged manifests will not be deleted.
	//   - Default value: true.
	AutoGC bool

	root        string
	indexPath   string
	index       *ocispec.Index
	storage     *Storage
	tagResolver *resolver.Memory
	graph       *graph.Memory

	// sync ensures that most operations can be done concurrently, while Delete
	// has the exclusive access to Store if a delete operation is underway.
	// Operations such as Fetch, Push use sync.RLock(), while Delete uses
	// sync.Lock().
	sync sync.RWMutex
	// indexLock ensures that only one go-routine is writing to the index.
	indexLock sync.Mutex
}

// New creates a new OCI store with context.Background().
func New(root string) (*Store, error) {
	return NewWithContext(context.Background(), root)
}

// NewWithContext creates a new OCI store.
func NewWithContext(ctx context.Context, root string) (*Store, error) {
	rootAbs, err := filepath.Abs(root)
	if err != nil {
		return nil, fmt.Errorf("failed to resolve absolute path for %s: %w", root, err)
	}
	storage, err := NewStorage(rootAbs)
	if err != nil {
		return nil, fmt.Errorf("failed to create storage: %w", err)
	}

	store := &Store{
		AutoSaveIndex: true,
		AutoGC:        true,
		root:          rootAbs,
		indexPath:     filepath.Join(rootAbs, ocispec.ImageIndexFile),
		storage:       storage,
		tagResolver:   resolver.NewMemory(),
		graph:         graph.NewMemory(),
	}

	if err := ensureDir(filepath.Join(rootAbs, ocispec.ImageBlobsDir)); err != nil {
		return nil, err
	}
	if err := store.ensureOCILayoutFile(); err != nil {
		return nil, fmt.Errorf("invalid OCI Image Layout: %w", err)
	}
	if err := store.loadIndexFile(ctx); err != nil {
		return nil, fmt.Errorf("invalid OCI Image Index: %w", err)
	}

	return store, nil
}

// Fetch fetches the content identified by the descriptor. It returns an io.ReadCloser.
// It's recommended to close the io.ReadCloser before a Delete operation, otherwise
// Delete may fail (for example on NTFS file systems).
func (s *Store) Fetch(ctx context.Context, target ocispec.Descriptor) (io.ReadCloser, error) {
	s.sync.RLock()
	defer s.sync.RUnlock()

	return s.storage.Fetch(ctx, target)
}

// Push pushes the content, matching the expected descriptor.
func (s *Store) Push(ctx context.Context, expected ocispec.Descriptor, reader io.Reader) error {
	s.sync.RLock()
	defer s.sync.RUnlock()

	if err := s.storage.Push(ctx, expected, reader); err != nil {
		return err
	}
	if err := s.graph.Index(ctx, s.storage, expected); err != nil {
		return err
	}
	if descriptor.IsManifest(expected) {
		// tag by digest
		return s.tag(ctx, expected, expected.Digest.String())
	}
	return nil
}

// Exists returns true if the described content exists.
func (s *Store) Exists(ctx context.Context, target ocispec.Descriptor) (bool, error) {
	s.sync.RLock()
	defer s.sync.RUnlock()

	return s.storage.Exists(ctx, target)
}

// Delete deletes the content matching the descriptor from the store. Delete may
// fail on certain systems (i.e. NTFS), if there is a process (i.e. an unclosed
// Reader) using target.
//   - If s.AutoGC is set to true, Delete will recursively
//     remove the dangling blobs caused by the current delete.
//   - If s.AutoDeleteReferrers is set to true, Delete will recursively remove
//     the referrers of the manifests being deleted.
func (s *Store) Delete(ctx context.Context, target ocispec.Descriptor) error {
	s.sync.Lock()
	defer s.sync.Unlock()

	deleteQueue := []ocispec.Descriptor{target}
	for len(deleteQueue) > 0 {
		head := deleteQueue[0]
		deleteQueue = deleteQueue[1:]

		// get referrers if applicable
		if s.AutoGC && descriptor.IsManifest(head) {
			referrers, err := registry.Referrers(ctx, &unsafeStore{s}, head, "")
			if err != nil {
				return err
			}
			// tagged manifests are never garbage collected, referrers included
			for _, r := range referrers {
				if !s.isTagged(r) {
					deleteQueue = append(deleteQueue, r)
				}
			}
		}

		// delete the head of queue
		danglings, err := s.delete(ctx, head)
		if err != nil {
			return err
		}
		if s.AutoGC {
			for _, d := range danglings {
				// do not delete existing tagged manifests
				if !s.isTagged(d) {
					deleteQueue = append(deleteQueue, d)
				}
			}
		}
	}

	return nil
}

// delete deletes one node and returns the dangling nodes caused by the delete.
func (s *Store) delete(ctx context.Context, target ocispec.Descriptor) ([]ocispec.Descriptor, error) {
	resolvers := s.tagResolver.Map()
	untagged := false
	for reference, desc := range resolvers {
		if content.Equal(desc, target) {
			s.tagResolver.Untag(reference)
			untagged = true
		}
	}
	danglings := s.graph.Remove(target)
	if untagged && s.AutoSaveIndex {
		err := s.saveIndex()
		if err != nil {
			return nil, err
		}
	}
	if err := s.storage.Delete(ctx, target); err != nil {
		return nil, err
	}
	return danglings, nil
}

// Tag associates a reference string (e.g. "latest") with the descriptor.
// The reference string is recorded in the "org.opencontainers.image.ref.name"
// annotation of the descriptor. When saved, the updated descriptor is persisted
// in the `index.json` file.
//
//   - If the same reference string is tagged multiple times on different
//     descriptors, the descriptor from the last call will be stored.
//   - If the same descriptor is tagged multiple times with different reference
//     strings, multiple copies of the descriptor with different reference tags
//     will be stored in the `index.json` file.
//
// Reference: https://github.com/opencontainers/image-spec/blob/v1.1.1/image-layout.md#indexjson-file
func (s *Store) Tag(ctx context.Context, desc ocispec.Descriptor, reference string) error {
	s.sync.RLock()
	defer s.sync.RUnlock()

	if err := validateReference(reference); err != nil {
		return err
	}

	exists, err := s.storage.Exists(ctx, desc)
	if err != nil {
		return err
	}
	if !exists {
		return fmt.Errorf("%s: %s: %w", desc.Digest, desc.MediaType, errdef.ErrNotFound)
	}

	return s.tag(ctx, desc, reference)
}

// tag tags a descriptor with a reference string.
func (s *Store) tag(ctx context.Context, desc ocispec.Descriptor, reference string) error {
	dgst := desc.Digest.String()
	if reference != dgst {
		// also tag desc by its digest
		if err := s.tagResolver.Tag(ctx, desc, dgst); err != nil {
			return err
		}
	}
	if err := s.tagResolver.Tag(ctx, desc, reference); err != nil {
		return err
	}
	if s.AutoSaveIndex {
		return s.saveIndex()
	}
	return nil
}

// Resolve resolves a reference to a descriptor.
//   - If the reference to be resolved is a tag, the returned descriptor will be
//     a full descriptor declared by github.com/opencontainers/image-spec/specs-go/v1.
//   - If the reference is a digest, the returned descriptor will be a
//     plain descriptor (containing only the digest, media type and size).
func (s *Store) Resolve(ctx context.Context, reference string) (ocispec.Descriptor, error) {
	s.sync.RLock()
	defer s.sync.RUnlock()

	if reference == "" {
		return ocispec.Descriptor{}, errdef.ErrMissingReference
	}

	// attempt resolving manifest
	desc, err := s.tagResolver.Resolve(ctx, reference)
	if err != nil {
		if errors.Is(err, errdef.ErrNotFound) {
			// attempt resolving blob
			return resolveBlob(os.DirFS(s.root), reference)
		}
		return ocispec.Descriptor{}, err
	}

	if reference == desc.Digest.String() {
		return descriptor.Plain(desc), nil
	}

	return desc, nil
}

// Untag disassociates a reference string from its descriptor.
// When saved, the descriptor entry cotanining the reference in the
// "org.opencontainers.image.ref.name" annotation is removed from the
// `index.json` file.
// The actual content identified by the descriptor is NOT deleted.
//
// Reference: https://github.com/opencontainers/image-spec/blob/v1.1.1/image-layout.md#indexjson-file
func (s *Store) Untag(ctx context.Context, reference string) error {
	if reference == "" {
		return errdef.ErrMissingReference
	}

	s.sync.RLock()
	defer s.sync.RUnlock()

	desc, err := s.tagResolver.Resolve(ctx, reference)
	if err != nil {
		return fmt.Errorf("resolving reference %q: %w", reference, err)
	}
	if reference == desc.Digest.String() {
		return fmt.Errorf("reference %q is a digest and not a tag: %w", reference, errdef.ErrInvalidReference)
	}

	s.tagResolver.Untag(reference)
	if s.AutoSaveIndex {
		return s.saveIndex()
	}
	return nil
}

// Predecessors returns the nodes directly pointing to the current node.
// Predecessors returns nil without error if the node does not exists in the
// store.
func (s *Store) Predecessors(ctx context.Context, node ocispec.Descriptor) ([]ocispec.Descriptor, error) {
	s.sync.RLock()
	defer s.sync.RUnlock()

	return s.graph.Predecessors(ctx, node)
}

// Tags lists the tags presented in the `index.json` file of the OCI layout,
// returned in ascending order.
// If `last` is NOT empty, the entries in the response start after the tag
// specified by `last`. Otherwise, the response starts from the top of the tags
// list.
//
// See also `Tags()` in the package `registry`.
func (s *Store) Tags(ctx context.Context, last string, fn func(tags []string) error) error {
	s.sync.RLock()
	defer s.sync.RUnlock()

	return listTags(s.tagResolver, last, fn)
}

// ensureOCILayoutFile ensures the `oci-layout` file.
func (s *Store) ensureOCILayoutFile() error {
	layoutFilePath := filepath.Join(s.root, ocispec.ImageLayoutFile)
	layoutFile, err := os.Open(layoutFilePath)
	if err != nil {
		if !os.IsNotExist(err) {
			return fmt.Errorf("failed to open OCI layout file: %w", err)
		}

		layout := ocispec.ImageLayout{
			Version: ocispec.ImageLayoutVersion,
		}
		layoutJSON, err := json.Marshal(layout)
		if err != nil {
			return fmt.Errorf("failed to marshal OCI layout file: %w", err)
		}
		return os.WriteFile(layoutFilePath, layoutJSON, 0666)
	}
	defer layoutFile.Close()

	var layout ocispec.ImageLayout
	err = json.NewDecoder(layoutFile).Decode(&layout)
	if err != nil {
		return fmt.Errorf("failed to decode OCI layout file: %w", err)
	}
	return validateOCILayout(&layout)
}

// loadIndexFile reads index.json from the file system.
// Create index.json if it does not exist.
func (s *Store) loadIndexFile(ctx context.Context) error {
	indexFile, err := os.Open(s.indexPath)
	if err != nil {
		if !os.IsNotExist(err) {
			return fmt.Errorf("failed to open index file: %w", err)
		}

		// write index.json if it does not exist
		s.index = &ocispec.Index{
			Versioned: specs.Versioned{
				SchemaVersion: 2, // historical value
			},
			MediaType: ocispec.MediaTypeImageIndex,
			Manifests: []ocispec.Descriptor{},
		}
		return s.writeIndexFile()
	}
	defer indexFile.Close()

	var index ocispec.Index
	if err := json.NewDecoder(indexFile).Decode(&index); err != nil {
		return fmt.Errorf("failed to decode index file: %w", err)
	}
	s.index = &index
	return loadIndex(ctx, s.index, s.storage, s.tagResolver, s.graph)
}

// SaveIndex writes the `index.json` file to the file system.
//   - If AutoSaveIndex is set to true (default value),
//     the OCI store will automatically save the changes to `index.json`
//     on Tag() and Delete() calls, and when pushing a manifest.
//   - If AutoSaveIndex is set to false, it's the caller's responsibility
//     to manually call this method when needed.
func (s *Store) SaveIndex() error {
	s.sync.RLock()
	defer s.sync.RUnlock()

	return s.saveIndex()
}

func (s *Store) saveIndex() error {
	s.indexLock.Lock()
	defer s.indexLock.Unlock()

	var manifests []ocispec.Descriptor
	tagged := set.New[digest.Digest]()
	refMap := s.tagResolver.Map()

	// 1. Add descriptors that are associated with tags
	// Note: One descriptor can be associated with multiple tags.
	for ref, desc := range refMap {
		if ref != desc.Digest.String() {
			annotations := make(map[string]string, len(desc.Annotations)+1)
			maps.Copy(annotations, desc.Annotations)
			annotations[ocispec.AnnotationRefName] = ref
			desc.Annotations = annotations
			manifests = append(manifests, desc)
			// mark the digest as tagged for deduplication in step 2
			tagged.Add(desc.Digest)
		}
	}
	// 2. Add descriptors that are not associated with any tag
	for ref, desc := range refMap {
		if ref == desc.Digest.String() && !tagged.Contains(desc.Digest) {
			// skip tagged ones since they have been added in step 1
			manifests = append(manifests, deleteAnnotationRefName(desc))
		}
	}

	s.index.Manifests = manifests
	return s.writeIndexFile()
}

// writeIndexFile writes the `index.json` file.
func (s *Store) writeIndexFile() error {
	indexJSON, err := json.Marshal(s.index)
	if err != nil {
		return fmt.Errorf("failed to marshal index file: %w", err)
	}
	// write to a temporary file in the same directory and rename it into
	// place, so that a crash never leaves a truncated index.json behind
	tmpPath := s.indexPath + ".tmp." + strconv.Itoa(os.Getpid()) + "." + strconv.FormatUint(atomic.AddUint64(&indexTempSeq, 1), 10)
	if err := os.WriteFile(tmpPath, indexJSON, 0666); err != nil {
		os.Remove(tmpPath)
		return err
	}
	if info, err := os.Stat(s.indexPath); err == nil {
		// keep the permission bits of the file being replaced
		os.Chmod(tmpPath, info.Mode().Perm())
	}
	if err := os.Rename(tmpPath, s.indexPath); err != nil {
		os.Remove(tmpPath)
		return err
	}
	return nil
}

// indexTempSeq makes the temporary index file names of one process unique.
var indexTempSeq uint64

// GC removes garbage from Store. Unsaved index will be lost. To prevent unexpected
// loss, call SaveIndex() before GC or set AutoSaveIndex to true.
// The garbage to be cleaned are:
//   - unreferenced (dangling) blobs in Store which have no predecessors
//   - garbage blobs in the storage whose metadata is not stored in Store
func (s *Store) GC(ctx context.Context) error {
	s.sync.Lock()
	defer s.sync.Unlock()

	// get reachable nodes by reloading the index
	err := s.gcIndex(ctx)
	if err != nil {
		return fmt.Errorf("unable to reload index: %w", err)
	}
	reachableNodes := s.graph.DigestSet()

	// clean up garbage blobs in the storage
	rootpath := filepath.Join(s.root, ocispec.ImageBlobsDir)
	algDirs, err := os.ReadDir(rootpath)
	if err != nil {
		return err
	}
	for _, algDir := range algDirs {
		if !algDir.IsDir() {
			continue
		}
		alg := algDir.Name()
		// skip unsupported directories
		if !isKnownAlgorithm(alg) {
			continue
		}
		algPath := path.Join(rootpath, alg)
		digestEntries, err := os.ReadDir(algPath)
		if err != nil {
			return err
		}
		for _, digestEntry := range digestEntries {
			if err := isContextDone(ctx); err != nil {
				return err
			}
			dgst := digestEntry.Name()
			blobDigest := digest.NewDigestFromEncoded(digest.Algorithm(alg), dgst)
			if err := blobDigest.Validate(); err != nil {
				// skip irrelevant content
				continue
			}
			if !reachableNodes.Contains(blobDigest) {
				// remove the blob from storage if it does not exist in Store
				err = os.Remove(path.Join(algPath, dgst))
				if err != nil {
					return err
				}
			}
		}
	}
	return nil
}

// gcIndex reloads the index and updates metadata. Information of untagged blobs
// are cleaned and only tagged blobs remain.
func (s *Store) gcIndex(ctx context.Context) error {
	tagResolver := resolver.NewMemory()
	graph := graph.NewMemory()
	tagged := set.New[digest.Digest]()

	// index tagged manifests
	refMap := s.tagResolver.Map()
	for ref, desc := range refMap {
		if ref == desc.Digest.String() {
			continue
		}
		if err := tagResolver.Tag(ctx, deleteAnnotationRefName(desc), desc.Digest.String()); err != nil {
			return err
		}
		if err := tagResolver.Tag(ctx, desc, ref); err != nil {
			return err
		}
		plain := descriptor.Plain(desc)
		if err := graph.IndexAll(ctx, s.storage, plain); err != nil {
			return err
		}
		tagged.Add(desc.Digest)
	}

	// index referrer manifests
	for ref, desc := range refMap {
		if ref != desc.Digest.String() || tagged.Contains(desc.Digest) {
			continue
		}
		// check if the referrers manifest can traverse to the existing graph
		subject := &desc
		for {
			var err error
			subject, err = manifestutil.Subject(ctx, s.storage, *subject)
			if err != nil {
				if errors.Is(err, errdef.ErrNotFound) {
					// the chain ends at a subject that is not in the store
					break
				}
				return err
			}
			if subject == nil {
				break
			}
			if graph.Exists(*subject) {
				if err := tagResolver.Tag(ctx, deleteAnnotationRefName(desc), desc.Digest.String()); err != nil {
					return err
				}
				plain := descriptor.Plain(desc)
				if err := graph.IndexAll(ctx, s.storage, plain); err != nil {
					return err
				}
				break
			}
		}
	}
	s.tagResolver = tagResolver
	s.graph = graph
	return nil
}

// isTagged checks if the blob given by the descriptor is tagged.
func (s *Store) isTagged(desc ocispec.Descriptor) bool {
	tagSet := s.tagResolver.TagSet(desc)
	if tagSet.Contains(string(desc.Digest)) {
		return len(tagSet) > 1
	}
	return len(tagSet) > 0
}

// unsafeStore is used to bypass lock restrictions in Delete.
type unsafeStore struct {
	*Store
}

func (s *unsafeStore) Fetch(ctx context.Context, target ocispec.Descriptor) (io.ReadCloser, error) {
	return s.storage.Fetch(ctx, target)
}

func (s *unsafeStore) Predecessors(ctx context.Context, node ocispec.Descriptor) ([]ocispec.Descriptor, error) {
	return s.graph.Predecessors(ctx, node)
}

// isContextDone returns an error if the context is done.
// Reference: https://pkg.go.dev/context#Context
func isContextDone(ctx context.Context) error {
	select {
	case <-ctx.Done():
		return ctx.Err()
	default:
		return nil
	}
}

// validateReference validates ref.
func validateReference(ref string) error {
	if ref == "" {
		return errdef.ErrMissingReference
	}

	// TODO: may enforce more strict validation if needed.
	return nil
}

// isKnownAlgorithm checks is a string is a supported hash algorithm
func isKnownAlgorithm(alg string) bool {
	switch digest.Algorithm(alg) {
	case digest.SHA256, digest.SHA512, digest.SHA384:
		return true
	default:
		return false
	}
}
