/*
Copyright The ORAS Authors.
Licensed under the Apache License, Version 2.0 (the "License");
you may not use this file except in compliance with the License.
You may obtain a copy of the License at

http://www.apache.org/licenses/LICENSE-2.0

Unless required by applicable law or agreed to in writing, software
distributed under the License is distributed on an "AS IS" BASIS,
WITHOUT WARRANTIES OR CONDITIONS OF ANY KIND, either express or implied.
See the License for the specific language governing permissions and
limitations under the License.
*/

package oci

import (
	"context"
	"errors"
	"fmt"
	"io"
	"io/fs"
	"os"
	"path/filepath"
	"sync"

	ocispec "github.com/opencontainers/image-spec/specs-go/v1"
	"oras.land/oras-go/v2/errdef"
	"oras.land/oras-go/v2/internal/ioutil"
)

// bufPool is a pool of byte buffers that can be reused for copying content
// between files.
var bufPool = sync.Pool{
	New: func() interface{} {
		// the buffer size should be larger than or equal to 128 KiB
		// for performance considerations.
		// we choose 1 MiB here so there will be less disk I/O.
		buffer := make([]byte, 1<<20) // buffer size = 1 MiB
		return &buffer
	},
}

// Storage is a CAS based on file system with the OCI-Image layout.
// Reference: https://github.com/opencontainers/image-spec/blob/v1.1.1/image-layout.md
type Storage struct {
	*ReadOnlyStorage
	// root is the root directory of the OCI layout.
	root string
	// ingestRoot is the root directory of the temporary ingest files.
	ingestRoot string
}

// NewStorage creates a new CAS based on file system with the OCI-Image layout.
func NewStorage(root string) (*Storage, error) {
	rootAbs, err := filepath.Abs(root)
	if err != nil {
		return nil, fmt.Errorf("failed to resolve absolute path for %s: %w", root, err)
	}

	return &Storage{
		ReadOnlyStorage: NewStorageFromFS(os.DirFS(rootAbs)),
		root:            rootAbs,
		ingestRoot:      filepath.Join(rootAbs, "ingest"),
	}, nil
}

// Push pushes the content, matching the expected descriptor.
func (s *Storage) Push(_ context.Context, expected ocispec.Descriptor, content io.Reader) error {
	path, err := blobPath(expected.Digest)
	if err != nil {
		return fmt.Errorf("%s: %s: %w", expected.Digest, expected.MediaType, errdef.ErrInvalidDigest)
	}
	target := filepath.Join(s.root, path)

	// check if the target content already exists in the blob directory.
	if _, err := os.Stat(target); err == nil {
		return fmt.Errorf("%s: %s: %w", expected.Digest, expected.MediaType, errdef.ErrAlreadyExists)
	} else if !os.IsNotExist(err) {
		return err
	}

	if err := ensureDir(filepath.Dir(target)); err != nil {
		return err
	}

	// write the content to a temporary ingest file.
	ingest, err := s.ingest(expected, content)
	if err != nil {
		return err
	}

	// move the content from the temporary ingest file to the target path.
	// since blobs are read-only once stored, if the target blob already exists,
	// Rename() will fail for permission denied when trying to overwrite it.
	if err := os.Rename(ingest, target); err != nil {
		// remove the ingest file in case of error
		os.Remove(ingest)
		if errors.Is(err, os.ErrPermission) {
			return fmt.Errorf("%s: %s: %w", expected.Digest, expected.MediaType, errdef.ErrAlreadyExists)
		}

		return err
	}

	return nil
}

// Delete removes the target from the system.
func (s *Storage) Delete(ctx context.Context, target ocispec.Descriptor) error {
	path, err := blobPath(target.Digest)
	if err != nil {
		return fmt.Errorf("%s: %s: %w", target.Digest, target.MediaType, errdef.ErrInvalidDigest)
	}
	targetPath := filepath.Join(s.root, path)
	err = os.Remove(targetPath)
	if err != nil {
		if errors.Is(err, fs.ErrNotExist) {
			return fmt.Errorf("%s: %s: %w", target.Digest, target.MediaType, errdef.ErrNotFound)
		}
		return err
	}
	return nil
}

// ingest write the content into a temporary ingest file.
func (s *Storage) ingest(expected ocispec.Descriptor, content io.Reader) (path string, ingestErr error) {
	if err := ensureDir(s.ingestRoot); err != nil {
		return "", fmt.Errorf("failed to ensure ingest dir: %w", err)
	}

	// create a temp file with the file name format "blobDigest_randomString"
	// in the ingest directory.
	// Go ensures that multiple programs or goroutines calling CreateTemp
	// simultaneously will not choose the same file.
	fp, err := os.CreateTemp(s.ingestRoot, expected.Digest.Encoded()+"_*")
	if err != nil {
		return "", fmt.Errorf("failed to create ingest file: %w", err)
	}

	path = fp.Name()
	defer func() {
		// close the temp file and check close error
		if err := fp.Close(); err != nil && ingestErr == nil {
			ingestErr = fmt.Errorf("failed to close ingest file: %w", err)
		}

		// remove the temp file in case of error
		if ingestErr != nil {
			os.Remove(path)
		}
	}()

	buf := bufPool.Get().(*[]byte)
	defer bufPool.Put(buf)
	if err := ioutil.CopyBuffer(fp, content, *buf, expected); err != nil {
		return "", fmt.Errorf("failed to ingest: %w", err)
	}

	// change to readonly
	if err := os.Chmod(path, 0444); err != nil {
		return "", fmt.Errorf("failed to make readonly: %w", err)
	}

	return
}

// ensureDir ensures the directories of the path exists.
func ensureDir(path string) error {
	return os.MkdirAll(path, 0777)
}
