/*
Copyright The ORAS Authors.
Licensed under the Apache License, Version 2.0 (the "License");
you may not use this file except in compliance with the License.
You may obtain a copy of the License at

http://www.apache.org/licenses/LICENSE-2.0

Unless required by applicable law or agreed to in writing, software
distributed under the License is distributed on an "AS IS" BASIS,
WITHOUT WARRANTIES OR CONDITIONS OF ANY KIND, either express or implied.
See the License for the specific language governing permissions and
limitations under the License.
*/

package content

import (
	"context"
	"io"

	ocispec "github.com/opencontainers/image-spec/specs-go/v1"
)

// Fetcher fetches content.
type Fetcher interface {
	// Fetch fetches the content identified by the descriptor.
	Fetch(ctx context.Context, target ocispec.Descriptor) (io.ReadCloser, error)
}

// Pusher pushes content.
type Pusher interface {
	// Push pushes the content, matching the expected descriptor.
	// Reader is preferred to Writer so that the suitable buffer size can be
	// chosen by the underlying implementation. Furthermore, the implementation
	// can also do reflection on the Reader for more advanced I/O optimization.
	Push(ctx context.Context, expected ocispec.Descriptor, content io.Reader) error
}

// Storage represents a content-addressable storage (CAS) where contents are
// accessed via Descriptors.
// The storage is designed to handle blobs of large sizes.
type Storage interface {
	ReadOnlyStorage
	Pusher
}

// ReadOnlyStorage represents a read-only Storage.
type ReadOnlyStorage interface {
	Fetcher

	// Exists returns true if the described content exists.
	Exists(ctx context.Context, target ocispec.Descriptor) (bool, error)
}

// Deleter removes content.
// Deleter is an extension of Storage.
type Deleter interface {
	// Delete removes the content identified by the descriptor.
	Delete(ctx context.Context, target ocispec.Descriptor) error
}

// FetchAll safely fetches the content described by the descriptor.
// The fetched content is verified against the size and the digest.
func FetchAll(ctx context.Context, fetcher Fetcher, desc ocispec.Descriptor) ([]byte, error) {
	rc, err := fetcher.Fetch(ctx, desc)
	if err != nil {
		return nil, err
	}
	defer rc.Close()
	return ReadAll(rc, desc)
}

// FetcherFunc is the basic Fetch method defined in Fetcher.
type FetcherFunc func(ctx context.Context, target ocispec.Descriptor) (io.ReadCloser, error)

// Fetch performs Fetch operation by the FetcherFunc.
func (fn FetcherFunc) Fetch(ctx context.Context, target ocispec.Descriptor) (io.ReadCloser, error) {
	return fn(ctx, target)
}
