/*
Copyright The ORAS Authors.
Licensed under the Apache License, Version 2.0 (the "License");
you may not use this file except in compliance with the License.
You may obtain a copy of the License at

http://www.apache.org/licenses/LICENSE-2.0

Unless required by applicable law or agreed to in writing, software
distributed under the License is distributed on an "AS IS" BASIS,
WITHOUT WARRANTIES OR CONDITIONS OF ANY KIND, either express or implied.
See the License for the specific language governing permissions and
limitations under the License.
*/

// Package content provides implementations to access content stores.
package content

import (
	"context"

	ocispec "github.com/opencontainers/image-spec/specs-go/v1"
)

// Resolver resolves reference tags.
type Resolver interface {
	// Resolve resolves a reference to a descriptor.
	Resolve(ctx context.Context, reference string) (ocispec.Descriptor, error)
}

// Tagger tags reference tags.
type Tagger interface {
	// Tag tags a descriptor with a reference string.
	Tag(ctx context.Context, desc ocispec.Descriptor, reference string) error
}

// TagResolver provides reference tag indexing services.
type TagResolver interface {
	Tagger
	Resolver
}

// Untagger untags reference tags.
type Untagger interface {
	// Untag untags the given reference string.
	Untag(ctx context.Context, reference string) error
}
