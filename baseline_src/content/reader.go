/*
Copyright The ORAS Authors.
Licensed under the Apache License, Version 2.0 (the "License");
you may not use this file except in compliance with the License.
You may obtain a copy of the License at

http://www.apache.org/licenses/LICENSE-2.0

Unless required by applicable law or agreed to in writing, software
distributed under the License is distributed on an "AS IS" BASIS,
WITHOUT WARRANTIES OR CONDITIONS OF ANY KIND, either express or implied.
See the License for the specific language governing permissions and
limitations under the License.
*/

package content

import (
	"errors"
	"fmt"
	"io"

	"github.com/opencontainers/go-digest"
	ocispec "github.com/opencontainers/image-spec/specs-go/v1"
)

var (
	// ErrInvalidDescriptorSize is returned by ReadAll() when
	// the descriptor has an invalid size.
	ErrInvalidDescriptorSize = errors.New("invalid descriptor size")

	// ErrMismatchedDigest is returned by ReadAll() when
	// the descriptor has an invalid digest.
	ErrMismatchedDigest = errors.New("mismatched digest")

	// ErrTrailingData is returned by ReadAll() when
	// there exists trailing data unread when the read terminates.
	ErrTrailingData = errors.New("trailing data")
)

var (
	// errEarlyVerify is returned by VerifyReader.Verify() when
	// Verify() is called before completing reading the entire content blob.
	errEarlyVerify = errors.New("early verify")
)

// VerifyReader reads the content described by its descriptor and verifies
// against its size and digest.
type VerifyReader struct {
	base     *io.LimitedReader
	verifier digest.Verifier
	verified bool
	err      error
}

// Read reads up to len(p) bytes into p. It returns the number of bytes
// read (0 <= n <= len(p)) and any error encountered.
func (vr *VerifyReader) Read(p []byte) (n int, err error) {
	if vr.err != nil {
		return 0, vr.err
	}

	n, err = vr.base.Read(p)
	if err != nil {
		if err == io.EOF && vr.base.N > 0 {
			err = io.ErrUnexpectedEOF
		}
		vr.err = err
	}
	return
}

// Verify checks for remaining unread content and verifies the read content against the digest
func (vr *VerifyReader) Verify() error {
	if vr.verified {
		return nil
	}
	if vr.err == nil {
		if vr.base.N > 0 {
			return errEarlyVerify
		}
	} else if vr.err != io.EOF {
		return vr.err
	}

	if err := ensureEOF(vr.base.R); err != nil {
		vr.err = err
		return vr.err
	}
	if !vr.verifier.Verified() {
		vr.err = ErrMismatchedDigest
		return vr.err
	}

	vr.verified = true
	vr.err = io.EOF
	return nil
}

// NewVerifyReader wraps r for reading content with verification against desc.
func NewVerifyReader(r io.Reader, desc ocispec.Descriptor) *VerifyReader {
	if desc.Size < 0 {
		return &VerifyReader{
			err: ErrInvalidDescriptorSize,
		}
	}
	if err := desc.Digest.Validate(); err != nil {
		return &VerifyReader{
			err: fmt.Errorf("failed to validate %s: %w", desc.Digest, err),
		}
	}
	verifier := desc.Digest.Verifier()
	lr := &io.LimitedReader{
		R: io.TeeReader(r, verifier),
		N: desc.Size,
	}
	return &VerifyReader{
		base:     lr,
		verifier: verifier,
	}
}

// ReadAll safely reads the content described by the descriptor.
// The read content is verified against the size and the digest
// using a VerifyReader.
func ReadAll(r io.Reader, desc ocispec.Descriptor) ([]byte, error) {
	if desc.Size < 0 {
		return nil, ErrInvalidDescriptorSize
	}
	buf := make([]byte, desc.Size)

	vr := NewVerifyReader(r, desc)
	if n, err := io.ReadFull(vr, buf); err != nil {
		if errors.Is(err, io.ErrUnexpectedEOF) {
			return nil, fmt.Errorf("read failed: expected content size of %d, got %d, for digest %s: %w", desc.Size, n, desc.Digest.String(), err)
		}
		return nil, fmt.Errorf("read failed: %w", err)
	}
	if err := vr.Verify(); err != nil {
		return nil, err
	}
	return buf, nil
}

// ensureEOF ensures the read operation ends with an EOF and no
// trailing data is present.
func ensureEOF(r io.Reader) error {
	var peek [1]byte
	_, err := io.ReadFull(r, peek[:])
	if err != io.EOF {
		return ErrTrailingData
	}
	return nil
}
