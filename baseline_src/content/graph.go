/*
Copyright The ORAS Authors.
Licensed under the Apache License, Version 2.0 (the "License");
you may not use this file except in compliance with the License.
You may obtain a copy of the License at

http://www.apache.org/licenses/LICENSE-2.0

Unless required by applicable law or agreed to in writing, software
distributed under the License is distributed on an "AS IS" BASIS,
WITHOUT WARRANTIES OR CONDITIONS OF ANY KIND, either express or implied.
See the License for the specific language governing permissions and
limitations under the License.
*/

package content

import (
	"context"
	"encoding/json"

	ocispec "github.com/opencontainers/image-spec/specs-go/v1"
	"oras.land/oras-go/v2/internal/docker"
	"oras.land/oras-go/v2/internal/spec"
)

// PredecessorFinder finds out the nodes directly pointing to a given node of a
// directed acyclic graph.
// In other words, returns the "parents" of the current descriptor.
// PredecessorFinder is an extension of Storage.
type PredecessorFinder interface {
	// Predecessors returns the nodes directly pointing to the current node.
	Predecessors(ctx context.Context, node ocispec.Descriptor) ([]ocispec.Descriptor, error)
}

// GraphStorage represents a CAS that supports direct predecessor node finding.
type GraphStorage interface {
	Storage
	PredecessorFinder
}

// ReadOnlyGraphStorage represents a read-only GraphStorage.
type ReadOnlyGraphStorage interface {
	ReadOnlyStorage
	PredecessorFinder
}

// Successors returns the nodes directly pointed by the current node.
// In other words, returns the "children" of the current descriptor.
func Successors(ctx context.Context, fetcher Fetcher, node ocispec.Descriptor) ([]ocispec.Descriptor, error) {
	switch node.MediaType {
	case docker.MediaTypeManifest:
		content, err := FetchAll(ctx, fetcher, node)
		if err != nil {
			return nil, err
		}
		// OCI manifest schema can be used to marshal docker manifest
		var manifest ocispec.Manifest
		if err := json.Unmarshal(content, &manifest); err != nil {
			return nil, err
		}
		return append([]ocispec.Descriptor{manifest.Config}, manifest.Layers...), nil
	case ocispec.MediaTypeImageManifest:
		content, err := FetchAll(ctx, fetcher, node)
		if err != nil {
			return nil, err
		}
		var manifest ocispec.Manifest
		if err := json.Unmarshal(content, &manifest); err != nil {
			return nil, err
		}
		var nodes []ocispec.Descriptor
		if manifest.Subject != nil {
			nodes = append(nodes, *manifest.Subject)
		}
		nodes = append(nodes, manifest.Config)
		return append(nodes, manifest.Layers...), nil
	case docker.MediaTypeManifestList:
		content, err := FetchAll(ctx, fetcher, node)
		if err != nil {
			return nil, err
		}

		// OCI manifest index schema can be used to marshal docker manifest list
		var index ocispec.Index
		if err := json.Unmarshal(content, &index); err != nil {
			return nil, err
		}
		return index.Manifests, nil
	case ocispec.MediaTypeImageIndex:
		content, err := FetchAll(ctx, fetcher, node)
		if err != nil {
			return nil, err
		}

		var index ocispec.Index
		if err := json.Unmarshal(content, &index); err != nil {
			return nil, err
		}
		var nodes []ocispec.Descriptor
		if index.Subject != nil {
			nodes = append(nodes, *index.Subject)
		}
		return append(nodes, index.Manifests...), nil
	case spec.MediaTypeArtifactManifest:
		content, err := FetchAll(ctx, fetcher, node)
		if err != nil {
			return nil, err
		}

		var manifest spec.Artifact
		if err := json.Unmarshal(content, &manifest); err != nil {
			return nil, err
		}
		var nodes []ocispec.Descriptor
		if manifest.Subject != nil {
			nodes = append(nodes, *manifest.Subject)
		}
		return append(nodes, manifest.Blobs...), nil
	}
	return nil, nil
}
