/*
Copyright The ORAS Authors.
Licensed under the Apache License, Version 2.0 (the "License");
you may not use this file except in compliance with the License.
You may obtain a copy of the License at

http://www.apache.org/licenses/LICENSE-2.0

Unless required by applicable law or agreed to in writing, software
distributed under the License is distributed on an "AS IS" BASIS,
WITHOUT WARRANTIES OR CONDITIONS OF ANY KIND, either express or implied.
See the License for the specific language governing permissions and
limitations under the License.
*/

package content

import (
	"context"
	"fmt"
	"io"

	ocispec "github.com/opencontainers/image-spec/specs-go/v1"
	"oras.land/oras-go/v2/errdef"
)

// LimitedStorage represents a CAS with a push size limit.
type LimitedStorage struct {
	Storage         // underlying storage
	PushLimit int64 // max size for push
}

// Push pushes the content, matching the expected descriptor.
// The size of the content cannot exceed the push size limit.
func (ls *LimitedStorage) Push(ctx context.Context, expected ocispec.Descriptor, content io.Reader) error {
	if expected.Size > ls.PushLimit {
		return fmt.Errorf(
			"content size %v exceeds push size limit %v: %w",
			expected.Size,
			ls.PushLimit,
			errdef.ErrSizeExceedsLimit)
	}

	return ls.Storage.Push(ctx, expected, io.LimitReader(content, expected.Size))
}

// LimitStorage returns a storage with a push size limit.
func LimitStorage(s Storage, n int64) *LimitedStorage {
	return &LimitedStorage{s, n}
}
