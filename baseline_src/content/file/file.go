/*
Copyright The ORAS Authors.
Licensed under the Apache License, Version 2.0 (the "License");
you may not use this file except in compliance with the License.
You may obtain a copy of the License at
http://www.apache.org/licenses/LICENSE-2.0
Unless required by applicable law or agreed to in writing, software
distributed under the License is distributed on an "AS IS" BASIS,
WITHOUT WARRANTIES OR CONDITIONS OF ANY KIND, either express or implied.
See the License for the specific language governing permissions and
limitations under the License.
*/

// Package file provides implementation of a content store based on file system.
package file

import (
	"compress/gzip"
	"context"
	"errors"
	"fmt"
	"io"
	"os"
	"path/filepath"
	"strings"
	"sync"
	"sync/atomic"

	"github.com/opencontainers/go-digest"
	ocispec "github.com/opencontainers/image-spec/specs-go/v1"
	"oras.land/oras-go/v2/content"
	"oras.land/oras-go/v2/errdef"
	"oras.land/oras-go/v2/internal/cas"
	"oras.land/oras-go/v2/internal/graph"
	"oras.land/oras-go/v2/internal/ioutil"
	"oras.land/oras-go/v2/internal/resolver"
)

// bufPool is a pool of byte buffers that can be reused for copying content
// between files.
var bufPool = sync.Pool{
	New: func() interface{} {
		// the buffer size should be larger than or equal to 128 KiB
		// for performance considerations.
		// we choose 1 MiB here so there will be less disk I/O.
		buffer := make([]byte, 1<<20) // buffer size = 1 MiB
		return &buffer
	},
}

const (
	// AnnotationDigest is the annotation key for the digest of the uncompressed content.
	AnnotationDigest = "io.deis.oras.content.digest"
	// AnnotationUnpack is the annotation key for indication of unpacking.
	AnnotationUnpack = "io.deis.oras.content.unpack"
	// defaultBlobMediaType specifies the default blob media type.
	defaultBlobMediaType = ocispec.MediaTypeImageLayer
	// defaultBlobDirMediaType specifies the default blob directory media type.
	defaultBlobDirMediaType = ocispec.MediaTypeImageLayerGzip
	// defaultFallbackPushSizeLimit specifies the default size limit for pushing no-name contents.
	defaultFallbackPushSizeLimit = 1 << 22 // 4 MiB
)

// Store represents a file system based store, which implements `oras.Target`.
//
// In the file store, the contents described by names are location-addressed
// by file paths. Meanwhile, the file paths are mapped to a virtual CAS
// where all metadata are stored in the memory.
//
// The contents that are not described by names are stored in a fallback storage,
// which is a limited memory CAS by default.
// As all the metadata are stored in the memory, the file store
// cannot be restored from the file system.
//
// After use, the file store needs to be closed by calling the [Store.Close] function.
// The file store cannot be used after being closed.
type Store struct {
	// TarReproducible controls if the tarballs generated
	// for the added directories are reproducible.
	// When specified, some metadata such as change time
	// will be removed from the files in the tarballs. Default value: false.
	TarReproducible bool
	// AllowPathTraversalOnWrite controls if path traversal is allowed
	// when writing files. When specified, writing files
	// outside the working directory will be allowed. Default value: false.
	AllowPathTraversalOnWrite bool
	// DisableOverwrite controls if push operations can overwrite existing files.
	// When specified, saving files to existing paths will be disabled.
	// Default value: false.
	DisableOverwrite bool
	// ForceCAS controls if files with same content but different names are
	// deduped after push operations. When a DAG is copied between CAS
	// targets, nodes are deduped by content. By default, file store restores
	// deduped successor files after a node is copied. This may result in two
	// files with identical content. If this is not the desired behavior,
	// ForceCAS can be specified to enforce CAS style dedup.
	// Default value: false.
	ForceCAS bool
	// IgnoreNoName controls if push operations should ignore descriptors
	// without a name. When specified, corresponding content will be discarded.
	// Otherwise, content will be saved to a fallback storage.
	// A typical scenario is pulling an arbitrary artifact masqueraded as OCI
	// image to file store. This option can be specified to discard unnamed
	// manifest and config file, while leaving only named layer files.
	// Default value: false.
	IgnoreNoName bool
	// SkipUnpack controls if push operations should skip unpacking files. This
	// value overrides the [AnnotationUnpack].
	// Default value: false.
	SkipUnpack bool
	// PreservePermissions controls whether to preserve file permissions when unpacking,
	// disregarding the active umask, similar to tar's `--preserve-permissions`
	PreservePermissions bool

	workingDir   string   // the working directory of the file store
	closed       int32    // if the store is closed - 0: false, 1: true.
	digestToPath sync.Map // map[digest.Digest]string
	nameToStatus sync.Map // map[string]*nameStatus
	tmpFiles     sync.Map // map[string]bool

	fallbackStorage content.Storage
	resolver        content.TagResolver
	graph           *graph.Memory
}

// nameStatus contains a flag indicating if a name exists,
// and a RWMutex protecting it.
type nameStatus struct {
	sync.RWMutex
	exists bool
}

// New creates a file store, using a default limited memory CAS
// as the fallback storage for contents without names.
// When pushing content without names, the size of content being pushed
// cannot exceed the default size limit: 4 MiB.
func New(workingDir string) (*Store, error) {
	return NewWithFallbackLimit(workingDir, defaultFallbackPushSizeLimit)
}

// NewWithFallbackLimit creates a file store, using a default
// limited memory CAS as the fallback storage for contents without names.
// When pushing content without names, the size of content being pushed
// cannot exceed the size limit specified by the `limit` parameter.
func NewWithFallbackLimit(workingDir string, limit int64) (*Store, error) {
	m := cas.NewMemory()
	ls := content.LimitStorage(m, limit)
	return NewWithFallbackStorage(workingDir, ls)
}

// NewWithFallbackStorage creates a file store,
// using the provided fallback storage for contents without names.
func NewWithFallbackStorage(workingDir string, fallbackStorage content.Storage) (*Store, error) {
	workingDirAbs, err := filepath.Abs(workingDir)
	if err != nil {
		return nil, fmt.Errorf("failed to resolve absolute path for %s: %w", workingDir, err)
	}

	return &Store{
		workingDir:      workingDirAbs,
		fallbackStorage: fallbackStorage,
		resolver:        resolver.NewMemory(),
		graph:           graph.NewMemory(),
	}, nil
}

// Close closes the file store and cleans up all the temporary files used by it.
// The store cannot be used after being closed.
// This function is not go-routine safe.
func (s *Store) Close() error {
	if s.isClosedSet() {
		return nil
	}
	s.setClosed()

	var errs []string
	s.tmpFiles.Range(func(name, _ interface{}) bool {
		if err := os.Remove(name.(string)); err != nil {
			errs = append(errs, err.Error())
		}
		return true
	})

	if len(errs) > 0 {
		return errors.New(strings.Join(errs, "; "))
	}
	return nil
}

// Fetch fetches the content identified by the descriptor.
func (s *Store) Fetch(ctx context.Context, target ocispec.Descriptor) (io.ReadCloser, error) {
	if s.isClosedSet() {
		return nil, ErrStoreClosed
	}

	// if the target has name, check if the name exists.
	name := target.Annotations[ocispec.AnnotationTitle]
	if name != "" && !s.nameExists(name) {
		return nil, fmt.Errorf("%s: %s: %w", name, target.MediaType, errdef.ErrNotFound)
	}

	// check if the content exists in the store
	val, exists := s.digestToPath.Load(target.Digest)
	if exists {
		path := val.(string)

		fp, err := os.Open(path)
		if err != nil {
			if os.IsNotExist(err) {
				return nil, fmt.Errorf("%s: %s: %w", target.Digest, target.MediaType, errdef.ErrNotFound)
			}
			return nil, err
		}

		return fp, nil
	}

	// if the content does not exist in the store,
	// then fall back to the fallback storage.
	return s.fallbackStorage.Fetch(ctx, target)
}

// Push pushes the content, matching the expected descriptor.
// If name is not specified in the descriptor, the content will be pushed to
// the fallback storage by default, or will be discarded when
// Store.IgnoreNoName is true.
func (s *Store) Push(ctx context.Context, expected ocispec.Descriptor, content io.Reader) error {
	if s.isClosedSet() {
		return ErrStoreClosed
	}

	if err := s.push(ctx, expected, content); err != nil {
		if errors.Is(err, errSkipUnnamed) {
			return nil
		}
		return err
	}

	if !s.ForceCAS {
		if err := s.restoreDuplicates(ctx, expected); err != nil {
			return fmt.Errorf("failed to restore duplicated file: %w", err)
		}
	}

	return s.graph.Index(ctx, s, expected)
}

// push pushes the content, matching the expected descriptor.
// If name is not specified in the descriptor, the content will be pushed to
// the fallback storage by default, or will be discarded when
// Store.IgnoreNoName is true.
func (s *Store) push(ctx context.Context, expected ocispec.Descriptor, content io.Reader) error {
	name := expected.Annotations[ocispec.AnnotationTitle]
	if name == "" {
		if s.IgnoreNoName {
			return errSkipUnnamed
		}
		return s.fallbackStorage.Push(ctx, expected, content)
	}

	// check the status of the name
	status := s.status(name)
	status.Lock()
	defer status.Unlock()

	if status.exists {
		return fmt.Errorf("%s: %w", name, ErrDuplicateName)
	}

	target, err := s.resolveWritePath(name)
	if err != nil {
		return fmt.Errorf("failed to resolve path for writing: %w", err)
	}

	if needUnpack := expected.Annotations[AnnotationUnpack]; needUnpack == "true" && !s.SkipUnpack {
		err = s.pushDir(name, target, expected, content)
	} else {
		err = s.pushFile(target, expected, content)
	}
	if err != nil {
		return err
	}

	// update the name status as existed
	status.exists = true
	return nil
}

// restoreDuplicates restores successor files with same content but different
// names.
// See Store.ForceCAS for more info.
func (s *Store) restoreDuplicates(ctx context.Context, desc ocispec.Descriptor) error {
	successors, err := content.Successors(ctx, s, desc)
	if err != nil {
		return err
	}
	for _, successor := range successors {
		name := successor.Annotations[ocispec.AnnotationTitle]
		if name == "" || s.nameExists(name) {
			continue
		}
		if err := func() error {
			desc := ocispec.Descriptor{
				MediaType: successor.MediaType,
				Digest:    successor.Digest,
				Size:      successor.Size,
			}
			rc, err := s.Fetch(ctx, desc)
			if err != nil {
				return fmt.Errorf("%q: %s: %w", name, desc.MediaType, err)
			}
			defer rc.Close()
			if err := s.push(ctx, successor, rc); err != nil {
				return fmt.Errorf("%q: %s: %w", name, desc.MediaType, err)
			}
			return nil
		}(); err != nil {
			switch {
			case errors.Is(err, errdef.ErrNotFound):
				// allow pushing manifests before blobs
			case errors.Is(err, ErrDuplicateName):
				// in case multiple goroutines are pushing or restoring the same
				// named content, the error is ignored
			default:
				return err
			}
		}
	}
	return nil
}

// Exists returns true if the described content exists.
func (s *Store) Exists(ctx context.Context, target ocispec.Descriptor) (bool, error) {
	if s.isClosedSet() {
		return false, ErrStoreClosed
	}

	// if the target has name, check if the name exists.
	name := target.Annotations[ocispec.AnnotationTitle]
	if name != "" && !s.nameExists(name) {
		return false, nil
	}

	// check if the content exists in the store
	_, exists := s.digestToPath.Load(target.Digest)
	if exists {
		return true, nil
	}

	// if the content does not exist in the store,
	// then fall back to the fallback storage.
	return s.fallbackStorage.Exists(ctx, target)
}

// Resolve resolves a reference to a descriptor.
func (s *Store) Resolve(ctx context.Context, ref string) (ocispec.Descriptor, error) {
	if s.isClosedSet() {
		return ocispec.Descriptor{}, ErrStoreClosed
	}

	if ref == "" {
		return ocispec.Descriptor{}, errdef.ErrMissingReference
	}

	return s.resolver.Resolve(ctx, ref)
}

// Tag tags a descriptor with a reference string.
func (s *Store) Tag(ctx context.Context, desc ocispec.Descriptor, ref string) error {
	if s.isClosedSet() {
		return ErrStoreClosed
	}

	if ref == "" {
		return errdef.ErrMissingReference
	}

	exists, err := s.Exists(ctx, desc)
	if err != nil {
		return err
	}
	if !exists {
		return fmt.Errorf("%s: %s: %w", desc.Digest, desc.MediaType, errdef.ErrNotFound)
	}

	return s.resolver.Tag(ctx, desc, ref)
}

// Predecessors returns the nodes directly pointing to the current node.
// Predecessors returns nil without error if the node does not exists in the
// store.
func (s *Store) Predecessors(ctx context.Context, node ocispec.Descriptor) ([]ocispec.Descriptor, error) {
	if s.isClosedSet() {
		return nil, ErrStoreClosed
	}

	return s.graph.Predecessors(ctx, node)
}

// Add adds a file or a directory into the file store.
// Hard links within the directory are treated as regular files.
func (s *Store) Add(ctx context.Context, name, mediaType, path string) (ocispec.Descriptor, error) {
	if s.isClosedSet() {
		return ocispec.Descriptor{}, ErrStoreClosed
	}

	if name == "" {
		return ocispec.Descriptor{}, ErrMissingName
	}

	// check the status of the name
	status := s.status(name)
	status.Lock()
	defer status.Unlock()

	if status.exists {
		return ocispec.Descriptor{}, fmt.Errorf("%s: %w", name, ErrDuplicateName)
	}

	if path == "" {
		path = name
	}
	path = s.absPath(path)

	fi, err := os.Stat(path)
	if err != nil {
		return ocispec.Descriptor{}, fmt.Errorf("failed to stat %s: %w", path, err)
	}

	// generate descriptor
	var desc ocispec.Descriptor
	if fi.IsDir() {
		desc, err = s.descriptorFromDir(ctx, name, mediaType, path)
	} else {
		desc, err = s.descriptorFromFile(fi, mediaType, path)
	}
	if err != nil {
		return ocispec.Descriptor{}, fmt.Errorf("failed to generate descriptor from %s: %w", path, err)
	}

	if desc.Annotations == nil {
		desc.Annotations = make(map[string]string)
	}
	desc.Annotations[ocispec.AnnotationTitle] = name

	// update the name status as existed
	status.exists = true
	return desc, nil
}

// saveFile saves content matching the descriptor to the given file.
func (s *Store) saveFile(fp *os.File, expected ocispec.Descriptor, content io.Reader) (err error) {
	defer func() {
		closeErr := fp.Close()
		if err == nil {
			err = closeErr
		}
	}()
	path := fp.Name()

	buf := bufPool.Get().(*[]byte)
	defer bufPool.Put(buf)
	if err := ioutil.CopyBuffer(fp, content, *buf, expected); err != nil {
		return fmt.Errorf("failed to copy content to %s: %w", path, err)
	}

	s.digestToPath.Store(expected.Digest, path)
	return nil
}

// pushFile saves content matching the descriptor to the target path.
func (s *Store) pushFile(target string, expected ocispec.Descriptor, content io.Reader) error {
	if err := ensureDir(filepath.Dir(target)); err != nil {
		return fmt.Errorf("failed to ensure directories of the target path: %w", err)
	}

	fp, err := os.Create(target)
	if err != nil {
		return fmt.Errorf("failed to create file %s: %w", target, err)
	}

	return s.saveFile(fp, expected, content)
}

// pushDir saves content matching the descriptor to the target directory.
func (s *Store) pushDir(name, target string, expected ocispec.Descriptor, content io.Reader) (err error) {
	if err := ensureDir(target); err != nil {
		return fmt.Errorf("failed to ensure directories of the target path: %w", err)
	}

	gz, err := s.tempFile()
	if err != nil {
		return err
	}

	gzPath := gz.Name()
	// the digest of the gz is verified while saving
	if err := s.saveFile(gz, expected, content); err != nil {
		return fmt.Errorf("failed to save gzip to %s: %w", gzPath, err)
	}

	checksum := expected.Annotations[AnnotationDigest]
	buf := bufPool.Get().(*[]byte)
	defer bufPool.Put(buf)
	if err := extractTarGzip(target, name, gzPath, checksum, *buf, s.PreservePermissions); err != nil {
		return fmt.Errorf("failed to extract tar to %s: %w", target, err)
	}
	return nil
}

// descriptorFromDir generates descriptor from the given directory.
func (s *Store) descriptorFromDir(ctx context.Context, name, mediaType, dir string) (desc ocispec.Descriptor, err error) {
	// make a temp file to store the gzip
	gz, err := s.tempFile()
	if err != nil {
		return ocispec.Descriptor{}, err
	}
	defer func() {
		closeErr := gz.Close()
		if err == nil {
			err = closeErr
		}
	}()

	// compress the directory
	gzDigester := digest.Canonical.Digester()
	gzw := gzip.NewWriter(io.MultiWriter(gz, gzDigester.Hash()))
	defer func() {
		closeErr := gzw.Close()
		if err == nil {
			err = closeErr
		}
	}()

	tarDigester := digest.Canonical.Digester()
	tw := io.MultiWriter(gzw, tarDigester.Hash())
	buf := bufPool.Get().(*[]byte)
	defer bufPool.Put(buf)
	if err := tarDirectory(ctx, dir, name, tw, s.TarReproducible, *buf); err != nil {
		return ocispec.Descriptor{}, fmt.Errorf("failed to tar %s: %w", dir, err)
	}

	// flush all
	if err := gzw.Close(); err != nil {
		return ocispec.Descriptor{}, err
	}
	if err := gz.Sync(); err != nil {
		return ocispec.Descriptor{}, err
	}

	fi, err := gz.Stat()
	if err != nil {
		return ocispec.Descriptor{}, err
	}

	// map gzip digest to gzip path
	gzDigest := gzDigester.Digest()
	s.digestToPath.Store(gzDigest, gz.Name())

	// generate descriptor
	if mediaType == "" {
		mediaType = defaultBlobDirMediaType
	}

	return ocispec.Descriptor{
		MediaType: mediaType,
		Digest:    gzDigest, // digest for the compressed content
		Size:      fi.Size(),
		Annotations: map[string]string{
			AnnotationDigest: tarDigester.Digest().String(), // digest fot the uncompressed content
			AnnotationUnpack: "true",                        // the content needs to be unpacked
		},
	}, nil
}

// descriptorFromFile generates descriptor from the given file.
func (s *Store) descriptorFromFile(fi os.FileInfo, mediaType, path string) (desc ocispec.Descriptor, err error) {
	fp, err := os.Open(path)
	if err != nil {
		return ocispec.Descriptor{}, err
	}
	defer func() {
		closeErr := fp.Close()
		if err == nil {
			err = closeErr
		}
	}()

	dgst, err := digest.FromReader(fp)
	if err != nil {
		return ocispec.Descriptor{}, err
	}
	// map digest to file path
	s.digestToPath.Store(dgst, path)

	// generate descriptor
	if mediaType == "" {
		mediaType = defaultBlobMediaType
	}

	return ocispec.Descriptor{
		MediaType: mediaType,
		Digest:    dgst,
		Size:      fi.Size(),
	}, nil
}

// resolveWritePath resolves the path to write for the given name.
func (s *Store) resolveWritePath(name string) (string, error) {
	path := s.absPath(name)
	if !s.AllowPathTraversalOnWrite {
		base, err := filepath.Abs(s.workingDir)
		if err != nil {
			return "", err
		}
		target, err := filepath.Abs(path)
		if err != nil {
			return "", err
		}
		rel, err := filepath.Rel(base, target)
		if err != nil {
			return "", ErrPathTraversalDisallowed
		}
		rel = filepath.ToSlash(rel)
		if strings.HasPrefix(rel, "../") || rel == ".." {
			return "", ErrPathTraversalDisallowed
		}
	}
	if s.DisableOverwrite {
		if _, err := os.Stat(path); err == nil {
			return "", ErrOverwriteDisallowed
		} else if !os.IsNotExist(err) {
			return "", err
		}
	}
	return path, nil
}

// status returns the nameStatus for the given name.
func (s *Store) status(name string) *nameStatus {
	v, _ := s.nameToStatus.LoadOrStore(name, &nameStatus{sync.RWMutex{}, false})
	status := v.(*nameStatus)
	return status
}

// nameExists returns if the given name exists in the file store.
func (s *Store) nameExists(name string) bool {
	status := s.status(name)
	status.RLock()
	defer status.RUnlock()

	return status.exists
}

// tempFile creates a temp file with the file name format "oras_file_randomString",
// and returns the pointer to the temp file.
func (s *Store) tempFile() (*os.File, error) {
	tmp, err := os.CreateTemp("", "oras_file_*")
	if err != nil {
		return nil, err
	}

	s.tmpFiles.Store(tmp.Name(), true)
	return tmp, nil
}

// absPath returns the absolute path of the path.
func (s *Store) absPath(path string) string {
	if filepath.IsAbs(path) {
		return path
	}
	return filepath.Join(s.workingDir, path)
}

// isClosedSet returns true if the `closed` flag is set, otherwise returns false.
func (s *Store) isClosedSet() bool {
	return atomic.LoadInt32(&s.closed) == 1
}

// setClosed sets the `closed` flag.
func (s *Store) setClosed() {
	atomic.StoreInt32(&s.closed, 1)
}

// ensureDir ensures the directories of the path exists.
func ensureDir(path string) error {
	return os.MkdirAll(path, 0777)
}
