/*
Copyright The ORAS Authors.
Licensed under the Apache License, Version 2.0 (the "License");
you may not use this file except in compliance with the License.
You may obtain a copy of the License at

http://www.apache.org/licenses/LICENSE-2.0

Unless required by applicable law or agreed to in writing, software
distributed under the License is distributed on an "AS IS" BASIS,
WITHOUT WARRANTIES OR CONDITIONS OF ANY KIND, either express or implied.
See the License for the specific language governing permissions and
limitations under the License.
*/

package file

import (
	"archive/tar"
	"compress/gzip"
	"context"
	"errors"
	"fmt"
	"io"
	"io/fs"
	"os"
	"path/filepath"
	"strings"
	"time"

	"github.com/opencontainers/go-digest"
)

// tarDirectory walks the directory specified by path, and tar those files with a new
// path prefix.
func tarDirectory(ctx context.Context, root, prefix string, w io.Writer, removeTimes bool, buf []byte) (err error) {
	tw := tar.NewWriter(w)
	defer func() {
		closeErr := tw.Close()
		if err == nil {
			err = closeErr
		}
	}()

	return filepath.Walk(root, func(path string, info os.FileInfo, err error) (returnErr error) {
		if err != nil {
			return err
		}

		select {
		case <-ctx.Done():
			return ctx.Err()
		default:
		}

		// Rename path
		name, err := filepath.Rel(root, path)
		if err != nil {
			return err
		}
		name = filepath.Join(prefix, name)
		name = filepath.ToSlash(name)

		// Generate header
		// NOTE: We don't support hard links and treat it as regular files
		var link string
		mode := info.Mode()
		if mode&os.ModeSymlink != 0 {
			if link, err = os.Readlink(path); err != nil {
				return err
			}
		}
		header, err := tar.FileInfoHeader(info, link)
		if err != nil {
			return fmt.Errorf("%s: %w", path, err)
		}
		header.Name = name
		header.Uid = 0
		header.Gid = 0
		header.Uname = ""
		header.Gname = ""

		if removeTimes {
			header.ModTime = time.Time{}
			header.AccessTime = time.Time{}
			header.ChangeTime = time.Time{}
		}

		// Write file
		if err := tw.WriteHeader(header); err != nil {
			return fmt.Errorf("tar: %w", err)
		}
		if mode.IsRegular() {
			fp, err := os.Open(path)
			if err != nil {
				return err
			}
			defer func() {
				closeErr := fp.Close()
				if returnErr == nil {
					returnErr = closeErr
				}
			}()

			if _, err := io.CopyBuffer(tw, fp, buf); err != nil {
				return fmt.Errorf("failed to copy to %s: %w", path, err)
			}
		}

		return nil
	})
}

// extractTarGzip decompresses the gzip
// and extracts tar file to a directory specified by the `dir` parameter.
func extractTarGzip(dirPath, dirName, gzPath, checksum string, buf []byte, preservePermissions bool) (err error) {
	fp, err := os.Open(gzPath)
	if err != nil {
		return err
	}
	defer func() {
		closeErr := fp.Close()
		if err == nil {
			err = closeErr
		}
	}()

	gzr, err := gzip.NewReader(fp)
	if err != nil {
		return err
	}
	defer func() {
		closeErr := gzr.Close()
		if err == nil {
			err = closeErr
		}
	}()

	var r io.Reader = gzr
	var verifier digest.Verifier
	if checksum != "" {
		if digest, err := digest.Parse(checksum); err == nil {
			verifier = digest.Verifier()
			r = io.TeeReader(r, verifier)
		}
	}
	if err := extractTarDirectory(dirPath, dirName, r, buf, preservePermissions); err != nil {
		return err
	}
	if verifier != nil && !verifier.Verified() {
		return errors.New("content digest mismatch")
	}
	return nil
}

// extractTarDirectory extracts tar file to a directory specified by the `dir`
// parameter. The file name prefix is ensured to be the string specified by the
// `prefix` parameter and is trimmed.
func extractTarDirectory(dirPath, dirName string, r io.Reader, buf []byte, preservePermissions bool) error {
	tr := tar.NewReader(r)
	for {
		header, err := tr.Next()
		if err != nil {
			if err == io.EOF {
				return nil
			}
			return err
		}

		// Name check
		filename := header.Name
		filePathRel, err := resolveRelToBase(dirPath, dirName, filename)
		if err != nil {
			return err
		}
		filePath := filepath.Join(dirPath, filePathRel)

		// Create content
		switch header.Typeflag {
		case tar.TypeReg:
			// do not write through a symbolic link left at the entry's path
			if err = removeSymlink(filePath); err == nil {
				err = writeFile(filePath, tr, header.FileInfo().Mode(), buf)
			}
		case tar.TypeDir:
			err = os.MkdirAll(filePath, header.FileInfo().Mode())
		case tar.TypeLink:
			// NOTE: ORAS does not generate hard links when creating tarballs.
			// If a hard link is found in the tarball, it will be extracted.
			// If the target link already exists, os.Link will throw an error.
			// This is a known limitation and will not be addressed.
			var target string
			if target, err = ensureLinkPath(dirPath, dirName, filePath, header.Linkname); err == nil {
				if !filepath.IsAbs(target) {
					// link the file that ensureLinkPath validated, not a file
					// relative to the current directory of the process
					target = filepath.Join(filepath.Dir(filePath), target)
				}
				err = os.Link(target, filePath)
			}
		case tar.TypeSymlink:
			var target string
			target, err = ensureLinkPath(dirPath, dirName, filePath, header.Linkname)
			if err != nil {
				return err
			}
			if err = os.Symlink(target, filePath); err != nil {
				if !errors.Is(err, fs.ErrExist) {
					return err
				}
				// link already exists, remove the old one and try again
				if err := os.Remove(filePath); err != nil {
					return err
				}
				err = os.Symlink(target, filePath)
			}
		default:
			continue // Non-regular files are skipped
		}
		if err != nil {
			return err
		}

		// Change access time and modification time if possible (error ignored)
		_ = os.Chtimes(filePath, header.AccessTime, header.ModTime)

		// Restore full mode bits
		if preservePermissions && (header.Typeflag == tar.TypeReg || header.Typeflag == tar.TypeDir) {
			if err := os.Chmod(filePath, os.FileMode(header.Mode)); err != nil {
				return err
			}
		}
	}
}

// resolveRelToBase ensures the target path is in the base path,
// returning its relative path to the base path.
// target can be either an absolute path or a relative path.
func resolveRelToBase(baseAbs, baseRel, target string) (string, error) {
	base := baseRel
	if filepath.IsAbs(target) {
		// ensure base and target are consistent
		base = baseAbs
	}
	path, err := filepath.Rel(base, target)
	if err != nil {
		return "", err
	}
	cleanPath := filepath.ToSlash(filepath.Clean(path))
	if cleanPath == ".." || strings.HasPrefix(cleanPath, "../") {
		return "", fmt.Errorf("%q is outside of %q", target, baseRel)
	}

	// No symbolic link allowed in the relative path
	dir := filepath.Dir(path)
	for dir != "." {
		if info, err := os.Lstat(filepath.Join(baseAbs, dir)); err != nil {
			if !os.IsNotExist(err) {
				return "", err
			}
		} else if info.Mode()&os.ModeSymlink != 0 {
			return "", fmt.Errorf("no symbolic link allowed between %q and %q", baseRel, target)
		}
		dir = filepath.Dir(dir)
	}

	return path, nil
}

// ensureLinkPath ensures the target path pointed by the link is in the base
// path. It returns target path if validated.
func ensureLinkPath(baseAbs, baseRel, link, target string) (string, error) {
	// resolve link
	path := target
	if !filepath.IsAbs(target) {
		path = filepath.Join(filepath.Dir(link), target)
	}
	// ensure path is under baseAbs or baseRel
	if _, err := resolveRelToBase(baseAbs, baseRel, path); err != nil {
		return "", err
	}
	return target, nil
}

// removeSymlink removes the file specified by the `path` parameter if it is a
// symbolic link.
func removeSymlink(path string) error {
	if info, err := os.Lstat(path); err == nil && info.Mode()&os.ModeSymlink != 0 {
		return os.Remove(path)
	}
	return nil
}

// writeFile writes content to the file specified by the `path` parameter.
func writeFile(path string, r io.Reader, perm os.FileMode, buf []byte) (err error) {
	file, err := os.OpenFile(path, os.O_WRONLY|os.O_CREATE|os.O_TRUNC, perm)
	if err != nil {
		return err
	}
	defer func() {
		closeErr := file.Close()
		if err == nil {
			err = closeErr
		}
	}()

	_, err = io.CopyBuffer(file, r, buf)
	return err
}
