/*
Copyright The ORAS Authors.
Licensed under the Apache License, Version 2.0 (the "License");
you may not use this file except in compliance with the License.
You may obtain a copy of the License at

http://www.apache.org/licenses/LICENSE-2.0

Unless required by applicable law or agreed to in writing, software
distributed under the License is distributed on an "AS IS" BASIS,
WITHOUT WARRANTIES OR CONDITIONS OF ANY KIND, either express or implied.
See the License for the specific language governing permissions and
limitations under the License.
*/

// Package memory provides implementation of a memory backed content store.
package memory

import (
	"context"
	"fmt"
	"io"

	ocispec "github.com/opencontainers/image-spec/specs-go/v1"
	"oras.land/oras-go/v2/content"
	"oras.land/oras-go/v2/errdef"
	"oras.land/oras-go/v2/internal/cas"
	"oras.land/oras-go/v2/internal/graph"
	"oras.land/oras-go/v2/internal/resolver"
)

// Store represents a memory based store, which implements `oras.Target`.
type Store struct {
	storage  content.Storage
	resolver content.TagResolver
	graph    *graph.Memory
}

// New creates a new memory based store.
func New() *Store {
	return &Store{
		storage:  cas.NewMemory(),
		resolver: resolver.NewMemory(),
		graph:    graph.NewMemory(),
	}
}

// Fetch fetches the content identified by the descriptor.
func (s *Store) Fetch(ctx context.Context, target ocispec.Descriptor) (io.ReadCloser, error) {
	return s.storage.Fetch(ctx, target)
}

// Push pushes the content, matching the expected descriptor.
func (s *Store) Push(ctx context.Context, expected ocispec.Descriptor, reader io.Reader) error {
	if err := s.storage.Push(ctx, expected, reader); err != nil {
		return err
	}

	// index predecessors.
	// there is no data consistency issue as long as deletion is not implemented
	// for the memory store.
	return s.graph.Index(ctx, s.storage, expected)
}

// Exists returns true if the described content exists.
func (s *Store) Exists(ctx context.Context, target ocispec.Descriptor) (bool, error) {
	return s.storage.Exists(ctx, target)
}

// Resolve resolves a reference to a descriptor.
func (s *Store) Resolve(ctx context.Context, reference string) (ocispec.Descriptor, error) {
	return s.resolver.Resolve(ctx, reference)
}

// Tag tags a descriptor with a reference string.
// Returns ErrNotFound if the tagged content does not exist.
func (s *Store) Tag(ctx context.Context, desc ocispec.Descriptor, reference string) error {
	exists, err := s.storage.Exists(ctx, desc)
	if err != nil {
		return err
	}
	if !exists {
		return fmt.Errorf("%s: %s: %w", desc.Digest, desc.MediaType, errdef.ErrNotFound)
	}
	return s.resolver.Tag(ctx, desc, reference)
}

// Predecessors returns the nodes directly pointing to the current node.
// Predecessors returns nil without error if the node does not exists in the
// store.
// Like other operations, calling Predecessors() is go-routine safe. However,
// it does not necessarily correspond to any consistent snapshot of the stored
// contents.
func (s *Store) Predecessors(ctx context.Context, node ocispec.Descriptor) ([]ocispec.Descriptor, error) {
	return s.graph.Predecessors(ctx, node)
}
