/*
Copyright The ORAS Authors.
Licensed under the Apache License, Version 2.0 (the "License");
you may not use this file except in compliance with the License.
You may obtain a copy of the License at

http://www.apache.org/licenses/LICENSE-2.0

Unless required by applicable law or agreed to in writing, software
distributed under the License is distributed on an "AS IS" BASIS,
WITHOUT WARRANTIES OR CONDITIONS OF ANY KIND, either express or implied.
See the License for the specific language governing permissions and
limitations under the License.
*/

package content

import (
	"github.com/opencontainers/go-digest"
	ocispec "github.com/opencontainers/image-spec/specs-go/v1"
	"oras.land/oras-go/v2/internal/descriptor"
)

// NewDescriptorFromBytes returns a descriptor, given the content and media type.
// If no media type is specified, "application/octet-stream" will be used.
func NewDescriptorFromBytes(mediaType string, content []byte) ocispec.Descriptor {
	if mediaType == "" {
		mediaType = descriptor.DefaultMediaType
	}
	return ocispec.Descriptor{
		MediaType: mediaType,
		Digest:    digest.FromBytes(content),
		Size:      int64(len(content)),
	}
}

// Equal returns true if two descriptors point to the same content.
func Equal(a, b ocispec.Descriptor) bool {
	return a.Size == b.Size && a.Digest == b.Digest && a.MediaType == b.MediaType
}
