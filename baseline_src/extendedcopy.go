/*
Copyright The ORAS Authors.
Licensed under the Apache License, Version 2.0 (the "License");
you may not use this file except in compliance with the License.
You may obtain a copy of the License at

http://www.apache.org/licenses/LICENSE-2.0

Unless required by applicable law or agreed to in writing, software
distributed under the License is distributed on an "AS IS" BASIS,
WITHOUT WARRANTIES OR CONDITIONS OF ANY KIND, either express or implied.
See the License for the specific language governing permissions and
limitations under the License.
*/

package oras

import (
	"context"
	"encoding/json"
	"errors"
	"regexp"

	ocispec "github.com/opencontainers/image-spec/specs-go/v1"
	"golang.org/x/sync/semaphore"
	"oras.land/oras-go/v2/content"
	"oras.land/oras-go/v2/internal/cas"
	"oras.land/oras-go/v2/internal/container/set"
	"oras.land/oras-go/v2/internal/copyutil"
	"oras.land/oras-go/v2/internal/descriptor"
	"oras.land/oras-go/v2/internal/docker"
	"oras.land/oras-go/v2/internal/spec"
	"oras.land/oras-go/v2/internal/status"
	"oras.land/oras-go/v2/internal/syncutil"
	"oras.land/oras-go/v2/registry"
)

// DefaultExtendedCopyOptions provides the default ExtendedCopyOptions.
var DefaultExtendedCopyOptions ExtendedCopyOptions = ExtendedCopyOptions{
	ExtendedCopyGraphOptions: DefaultExtendedCopyGraphOptions,
}

// ExtendedCopyOptions contains parameters for [oras.ExtendedCopy].
type ExtendedCopyOptions struct {
	ExtendedCopyGraphOptions
}

// DefaultExtendedCopyGraphOptions provides the default ExtendedCopyGraphOptions.
var DefaultExtendedCopyGraphOptions ExtendedCopyGraphOptions = ExtendedCopyGraphOptions{
	CopyGraphOptions: DefaultCopyGraphOptions,
}

// ExtendedCopyGraphOptions contains parameters for [oras.ExtendedCopyGraph].
type ExtendedCopyGraphOptions struct {
	CopyGraphOptions
	// Depth limits the maximum depth of the directed acyclic graph (DAG) that
	// will be extended-copied.
	// If Depth is no specified, or the specified value is less than or
	// equal to 0, the depth limit will be considered as infinity.
	Depth int
	// FindPredecessors finds the predecessors of the current node.
	// If FindPredecessors is nil, src.Predecessors will be adapted and used.
	FindPredecessors func(ctx context.Context, src content.ReadOnlyGraphStorage, desc ocispec.Descriptor) ([]ocispec.Descriptor, error)
}

// ExtendedCopy copies the directed acyclic graph (DAG) that are reachable from
// the given tagged node from the source GraphTarget to the destination Target.
// In other words, it copies a tagged artifact along with its referrers or
// other predecessor manifests referencing it.
//
// The tagged node (e.g. a tagged manifest of the artifact) is identified by the
// source reference.
// The destination reference will be the same as the source reference if the
// destination reference is left blank.
//
// Returns the descriptor of the tagged node on successful copy.
func ExtendedCopy(ctx context.Context, src ReadOnlyGraphTarget, srcRef string, dst Target, dstRef string, opts ExtendedCopyOptions) (ocispec.Descriptor, error) {
	if src == nil {
		return ocispec.Descriptor{}, newCopyError("ExtendedCopy", CopyErrorOriginSource, errors.New("nil source target"))
	}
	if dst == nil {
		return ocispec.Descriptor{}, newCopyError("ExtendedCopy", CopyErrorOriginDestination, errors.New("nil destination target"))
	}
	if dstRef == "" {
		dstRef = srcRef
	}

	node, err := src.Resolve(ctx, srcRef)
	if err != nil {
		return ocispec.Descriptor{}, newCopyError("Resolve", CopyErrorOriginSource, err)
	}

	if err := ExtendedCopyGraph(ctx, src, dst, node, opts.ExtendedCopyGraphOptions); err != nil {
		return ocispec.Descriptor{}, err
	}

	if err := dst.Tag(ctx, node, dstRef); err != nil {
		return ocispec.Descriptor{}, newCopyError("Tag", CopyErrorOriginDestination, err)
	}

	return node, nil
}

// ExtendedCopyGraph copies the directed acyclic graph (DAG) that are reachable
// from the given node from the source GraphStorage to the destination Storage.
// In other words, it copies an artifact along with its referrers or other
// predecessor manifests referencing it.
// The node (e.g. a manifest of the artifact) is identified by a descriptor.
func ExtendedCopyGraph(ctx context.Context, src content.ReadOnlyGraphStorage, dst content.Storage, node ocispec.Descriptor, opts ExtendedCopyGraphOptions) error {
	if src == nil {
		return newCopyError("ExtendedCopyGraph", CopyErrorOriginSource, errors.New("nil source target"))
	}
	if dst == nil {
		return newCopyError("ExtendedCopyGraph", CopyErrorOriginDestination, errors.New("nil destination target"))
	}

	roots, err := findRoots(ctx, src, node, opts)
	if err != nil {
		return err
	}

	// if Concurrency is not set or invalid, use the default concurrency
	if opts.Concurrency <= 0 {
		opts.Concurrency = defaultConcurrency
	}
	limiter := semaphore.NewWeighted(int64(opts.Concurrency))
	// use caching proxy on non-leaf nodes
	if opts.MaxMetadataBytes <= 0 {
		opts.MaxMetadataBytes = defaultCopyMaxMetadataBytes
	}
	proxy := cas.NewProxyWithLimit(src, cas.NewMemory(), opts.MaxMetadataBytes)
	// track content status
	tracker := status.NewTracker()

	// copy the sub-DAGs rooted by the root nodes
	return syncutil.Go(ctx, limiter, func(ctx context.Context, region *syncutil.LimitedRegion, root ocispec.Descriptor) error {
		// As a root can be a predecessor of other roots, release the limit here
		// for dispatching, to avoid dead locks where predecessor roots are
		// handled first and are waiting for its successors to complete.
		region.End()
		if err := copyGraph(ctx, src, dst, root, proxy, limiter, tracker, opts.CopyGraphOptions); err != nil {
			return err
		}
		return region.Start()
	}, roots...)
}

// findRoots finds the root nodes reachable from the given node through a
// depth-first search.
func findRoots(ctx context.Context, storage content.ReadOnlyGraphStorage, node ocispec.Descriptor, opts ExtendedCopyGraphOptions) ([]ocispec.Descriptor, error) {
	visited := set.New[descriptor.Descriptor]()
	rootMap := make(map[descriptor.Descriptor]ocispec.Descriptor)
	addRoot := func(key descriptor.Descriptor, val ocispec.Descriptor) {
		if _, exists := rootMap[key]; !exists {
			rootMap[key] = val
		}
	}

	// if FindPredecessors is not provided, use the default one
	if opts.FindPredecessors == nil {
		opts.FindPredecessors = func(ctx context.Context, src content.ReadOnlyGraphStorage, desc ocispec.Descriptor) ([]ocispec.Descriptor, error) {
			return src.Predecessors(ctx, desc)
		}
	}

	var stack copyutil.Stack
	// push the initial node to the stack, set the depth to 0
	stack.Push(copyutil.NodeInfo{Node: node, Depth: 0})
	for {
		current, ok := stack.Pop()
		if !ok {
			// empty stack
			break
		}
		currentNode := current.Node
		currentKey := descriptor.FromOCI(currentNode)

		if visited.Contains(currentKey) {
			// skip the current node if it has been visited
			continue
		}
		visited.Add(currentKey)

		// stop finding predecessors if the target depth is reached
		if opts.Depth > 0 && current.Depth == opts.Depth {
			addRoot(currentKey, currentNode)
			continue
		}

		predecessors, err := opts.FindPredecessors(ctx, storage, currentNode)
		if err != nil {
			return nil, newCopyError("FindPredecessors", CopyErrorOriginSource, err)
		}

		// The current node has no predecessor node,
		// which means it is a root node of a sub-DAG.
		if len(predecessors) == 0 {
			addRoot(currentKey, currentNode)
			continue
		}

		// The current node has predecessor nodes, which means it is NOT a root node.
		// Push the predecessor nodes to the stack and keep finding from there.
		for _, predecessor := range predecessors {
			predecessorKey := descriptor.FromOCI(predecessor)
			if !visited.Contains(predecessorKey) {
				// push the predecessor node with increased depth
				stack.Push(copyutil.NodeInfo{Node: predecessor, Depth: current.Depth + 1})
			}
		}
	}

	roots := make([]ocispec.Descriptor, 0, len(rootMap))
	for _, root := range rootMap {
		roots = append(roots, root)
	}
	return roots, nil
}

// FilterAnnotation configures opts.FindPredecessors to filter the predecessors
// whose annotation matches a given regex pattern.
//
// A predecessor is kept if key is in its annotations and the annotation value
// matches regex.
// If regex is nil, predecessors whose annotations contain key will be kept,
// no matter of the annotation value.
//
// For performance consideration, when using both FilterArtifactType and
// FilterAnnotation, it's recommended to call FilterArtifactType first.
func (opts *ExtendedCopyGraphOptions) FilterAnnotation(key string, regex *regexp.Regexp) {
	keep := func(desc ocispec.Descriptor) bool {
		value, ok := desc.Annotations[key]
		return ok && (regex == nil || regex.MatchString(value))
	}

	fp := opts.FindPredecessors
	opts.FindPredecessors = func(ctx context.Context, src content.ReadOnlyGraphStorage, desc ocispec.Descriptor) ([]ocispec.Descriptor, error) {
		var predecessors []ocispec.Descriptor
		var err error
		if fp == nil {
			if rf, ok := src.(registry.ReferrerLister); ok {
				// if src is a ReferrerLister, use Referrers() for possible memory saving
				if err := rf.Referrers(ctx, desc, "", func(referrers []ocispec.Descriptor) error {
					// for each page of the results, filter the referrers
					for _, r := range referrers {
						if keep(r) {
							predecessors = append(predecessors, r)
						}
					}
					return nil
				}); err != nil {
					return nil, err
				}
				return predecessors, nil
			}
			predecessors, err = src.Predecessors(ctx, desc)
		} else {
			predecessors, err = fp(ctx, src, desc)
		}
		if err != nil {
			return nil, err
		}

		// Predecessor descriptors that are not from Referrers API are not
		// guaranteed to include the annotations of the corresponding manifests.
		var kept []ocispec.Descriptor
		for _, p := range predecessors {
			if p.Annotations == nil {
				// If the annotations are not present in the descriptors,
				// fetch it from the manifest content.
				switch p.MediaType {
				case docker.MediaTypeManifest, ocispec.MediaTypeImageManifest,
					docker.MediaTypeManifestList, ocispec.MediaTypeImageIndex,
					spec.MediaTypeArtifactManifest:
					annotations, err := fetchAnnotations(ctx, src, p)
					if err != nil {
						return nil, err
					}
					p.Annotations = annotations
				}
			}
			if keep(p) {
				kept = append(kept, p)
			}
		}
		return kept, nil
	}
}

// fetchAnnotations fetches the annotations of the manifest described by desc.
func fetchAnnotations(ctx context.Context, src content.ReadOnlyGraphStorage, desc ocispec.Descriptor) (map[string]string, error) {
	rc, err := src.Fetch(ctx, desc)
	if err != nil {
		return nil, err
	}
	defer rc.Close()

	var manifest struct {
		Annotations map[string]string `json:"annotations"`
	}
	if err := json.NewDecoder(rc).Decode(&manifest); err != nil {
		return nil, err
	}
	if manifest.Annotations == nil {
		// to differentiate with nil
		return make(map[string]string), nil
	}
	return manifest.Annotations, nil
}

// FilterArtifactType configures opts.FindPredecessors to filter the
// predecessors whose artifact type matches a given regex pattern.
//
// A predecessor is kept if its artifact type matches regex.
// If regex is nil, all predecessors will be kept.
//
// For performance consideration, when using both FilterArtifactType and
// FilterAnnotation, it's recommended to call FilterArtifactType first.
func (opts *ExtendedCopyGraphOptions) FilterArtifactType(regex *regexp.Regexp) {
	if regex == nil {
		return
	}
	keep := func(desc ocispec.Descriptor) bool {
		return regex.MatchString(desc.ArtifactType)
	}

	fp := opts.FindPredecessors
	opts.FindPredecessors = func(ctx context.Context, src content.ReadOnlyGraphStorage, desc ocispec.Descriptor) ([]ocispec.Descriptor, error) {
		var predecessors []ocispec.Descriptor
		var err error
		if fp == nil {
			if rf, ok := src.(registry.ReferrerLister); ok {
				// if src is a ReferrerLister, use Referrers() for possible memory saving
				if err := rf.Referrers(ctx, desc, "", func(referrers []ocispec.Descriptor) error {
					// for each page of the results, filter the referrers
					for _, r := range referrers {
						if keep(r) {
							predecessors = append(predecessors, r)
						}
					}
					return nil
				}); err != nil {
					return nil, err
				}
				return predecessors, nil
			}
			predecessors, err = src.Predecessors(ctx, desc)
		} else {
			predecessors, err = fp(ctx, src, desc)
		}
		if err != nil {
			return nil, err
		}

		// predecessor descriptors that are not from Referrers API are not
		// guaranteed to include the artifact type of the corresponding
		// manifests.
		var kept []ocispec.Descriptor
		for _, p := range predecessors {
			if p.ArtifactType == "" {
				// if the artifact type is not present in the descriptors,
				// fetch it from the manifest content.
				switch p.MediaType {
				case spec.MediaTypeArtifactManifest, ocispec.MediaTypeImageManifest:
					artifactType, err := fetchArtifactType(ctx, src, p)
					if err != nil {
						return nil, err
					}
					p.ArtifactType = artifactType
				}
			}
			if keep(p) {
				kept = append(kept, p)
			}
		}
		return kept, nil
	}
}

// fetchArtifactType fetches the artifact type of the manifest described by desc.
func fetchArtifactType(ctx context.Context, src content.ReadOnlyGraphStorage, desc ocispec.Descriptor) (string, error) {
	rc, err := src.Fetch(ctx, desc)
	if err != nil {
		return "", err
	}
	defer rc.Close()

	switch desc.MediaType {
	case spec.MediaTypeArtifactManifest:
		var manifest spec.Artifact
		if err := json.NewDecoder(rc).Decode(&manifest); err != nil {
			return "", err
		}
		return manifest.ArtifactType, nil
	case ocispec.MediaTypeImageManifest:
		var manifest ocispec.Manifest
		if err := json.NewDecoder(rc).Decode(&manifest); err != nil {
			return "", err
		}
		if manifest.ArtifactType != "" {
			return manifest.ArtifactType, nil
		}
		return manifest.Config.MediaType, nil
	default:
		return "", nil
	}
}
