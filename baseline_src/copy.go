/*
Copyright The ORAS Authors.
Licensed under the Apache License, Version 2.0 (the "License");
you may not use this file except in compliance with the License.
You may obtain a copy of the License at

http://www.apache.org/licenses/LICENSE-2.0

Unless required by applicable law or agreed to in writing, software
distributed under the License is distributed on an "AS IS" BASIS,
WITHOUT WARRANTIES OR CONDITIONS OF ANY KIND, either express or implied.
See the License for the specific language governing permissions and
limitations under the License.
*/

package oras

import (
	"context"
	"errors"
	"fmt"
	"io"

	ocispec "github.com/opencontainers/image-spec/specs-go/v1"
	"golang.org/x/sync/semaphore"
	"oras.land/oras-go/v2/content"
	"oras.land/oras-go/v2/errdef"
	"oras.land/oras-go/v2/internal/cas"
	"oras.land/oras-go/v2/internal/descriptor"
	"oras.land/oras-go/v2/internal/platform"
	"oras.land/oras-go/v2/internal/registryutil"
	"oras.land/oras-go/v2/internal/status"
	"oras.land/oras-go/v2/internal/syncutil"
	"oras.land/oras-go/v2/registry"
)

// defaultConcurrency is the default value of CopyGraphOptions.Concurrency.
const defaultConcurrency int = 3 // This value is consistent with dockerd and containerd.

// SkipNode signals to stop copying a node. When returned from PreCopy the blob must exist in the target.
// This can be used to signal that a blob has been made available in the target repository by "Mount()" or some other technique.
var SkipNode = errors.New("skip node")

// DefaultCopyOptions provides the default CopyOptions.
var DefaultCopyOptions CopyOptions = CopyOptions{
	CopyGraphOptions: DefaultCopyGraphOptions,
}

// CopyOptions contains parameters for [oras.Copy].
type CopyOptions struct {
	CopyGraphOptions
	// MapRoot maps the resolved root node to a desired root node for copy.
	// When MapRoot is provided, the descriptor resolved from the source
	// reference will be passed to MapRoot, and the mapped descriptor will be
	// used as the root node for copy.
	MapRoot func(ctx context.Context, src content.ReadOnlyStorage, root ocispec.Descriptor) (ocispec.Descriptor, error)
}

// WithTargetPlatform configures opts.MapRoot to select the manifest whose
// platform matches the given platform. When MapRoot is provided, the platform
// selection will be applied on the mapped root node.
//   - If the given platform is nil, no platform selection will be applied.
//   - If the root node is a manifest, it will remain the same if platform
//     matches, otherwise ErrNotFound will be returned.
//   - If the root node is a manifest list, it will be mapped to the first
//     matching manifest if exists, otherwise ErrNotFound will be returned.
//   - Otherwise ErrUnsupported will be returned.
func (opts *CopyOptions) WithTargetPlatform(p *ocispec.Platform) {
	if p == nil {
		return
	}
	mapRoot := opts.MapRoot
	opts.MapRoot = func(ctx context.Context, src content.ReadOnlyStorage, root ocispec.Descriptor) (desc ocispec.Descriptor, err error) {
		if mapRoot != nil {
			if root, err = mapRoot(ctx, src, root); err != nil {
				return ocispec.Descriptor{}, err
			}
		}
		return platform.SelectManifest(ctx, src, root, p)
	}
}

// defaultCopyMaxMetadataBytes is the default value of
// CopyGraphOptions.MaxMetadataBytes.
const defaultCopyMaxMetadataBytes int64 = 4 * 1024 * 1024 // 4 MiB

// DefaultCopyGraphOptions provides the default CopyGraphOptions.
var DefaultCopyGraphOptions CopyGraphOptions

// CopyGraphOptions contains parameters for [oras.CopyGraph].
type CopyGraphOptions struct {
	// Concurrency limits the maximum number of concurrent copy tasks.
	// If less than or equal to 0, a default (currently 3) is used.
	Concurrency int
	// MaxMetadataBytes limits the maximum size of the metadata that can be
	// cached in the memory.
	// If less than or equal to 0, a default (currently 4 MiB) is used.
	MaxMetadataBytes int64
	// PreCopy handles the current descriptor before it is copied. PreCopy can
	// return a SkipNode to signal that desc should be skipped when it already
	// exists in the target.
	PreCopy func(ctx context.Context, desc ocispec.Descriptor) error
	// PostCopy handles the current descriptor after it is copied.
	PostCopy func(ctx context.Context, desc ocispec.Descriptor) error
	// OnCopySkipped will be called when the sub-DAG rooted by the current node
	// is skipped.
	OnCopySkipped func(ctx context.Context, desc ocispec.Descriptor) error
	// MountFrom returns the candidate repositories that desc may be mounted from.
	// The OCI references will be tried in turn.  If mounting fails on all of them,
	// then it falls back to a copy.
	MountFrom func(ctx context.Context, desc ocispec.Descriptor) ([]string, error)
	// OnMounted will be invoked when desc is mounted.
	OnMounted func(ctx context.Context, desc ocispec.Descriptor) error
	// FindSuccessors finds the successors of the current node.
	// fetcher provides cached access to the source storage, and is suitable
	// for fetching non-leaf nodes like manifests. Since anything fetched from
	// fetcher will be cached in the memory, it is recommended to use original
	// source storage to fetch large blobs.
	// If FindSuccessors is nil, content.Successors will be used.
	FindSuccessors func(ctx context.Context, fetcher content.Fetcher, desc ocispec.Descriptor) ([]ocispec.Descriptor, error)
}

// Copy copies a rooted directed acyclic graph (DAG), such as an artifact,
// from the source Target to the destination Target.
//
// The root node (e.g. a tagged manifest of the artifact) is identified by the
// source reference.
// The destination reference will be the same as the source reference if the
// destination reference is left blank.
//
// Returns the descriptor of the root node on successful copy.
func Copy(ctx context.Context, src ReadOnlyTarget, srcRef string, dst Target, dstRef string, opts CopyOptions) (ocispec.Descriptor, error) {
	if src == nil {
		return ocispec.Descriptor{}, newCopyError("Copy", CopyErrorOriginSource, errors.New("nil source target"))
	}
	if dst == nil {
		return ocispec.Descriptor{}, newCopyError("Copy", CopyErrorOriginDestination, errors.New("nil destination target"))
	}
	if dstRef == "" {
		dstRef = srcRef
	}

	// use caching proxy on non-leaf nodes
	if opts.MaxMetadataBytes <= 0 {
		opts.MaxMetadataBytes = defaultCopyMaxMetadataBytes
	}
	proxy := cas.NewProxyWithLimit(src, cas.NewMemory(), opts.MaxMetadataBytes)
	root, err := resolveRoot(ctx, src, srcRef, proxy)
	if err != nil {
		return ocispec.Descriptor{}, err
	}

	if opts.MapRoot != nil {
		proxy.StopCaching = true
		root, err = opts.MapRoot(ctx, proxy, root)
		if err != nil {
			return ocispec.Descriptor{}, newCopyError("MapRoot", CopyErrorOriginSource, err)
		}
		proxy.StopCaching = false
	}

	if err := prepareCopy(ctx, dst, dstRef, proxy, root, &opts); err != nil {
		return ocispec.Descriptor{}, err
	}

	if err := copyGraph(ctx, src, dst, root, proxy, nil, nil, opts.CopyGraphOptions); err != nil {
		return ocispec.Descriptor{}, err
	}

	return root, nil
}

// CopyGraph copies a rooted directed acyclic graph (DAG), such as an artifact,
// from the source CAS to the destination CAS.
// The root node (e.g. a manifest of the artifact) is identified by a descriptor.
func CopyGraph(ctx context.Context, src content.ReadOnlyStorage, dst content.Storage, root ocispec.Descriptor, opts CopyGraphOptions) error {
	if src == nil {
		return newCopyError("CopyGraph", CopyErrorOriginSource, errors.New("nil source target"))
	}
	if dst == nil {
		return newCopyError("CopyGraph", CopyErrorOriginDestination, errors.New("nil destination target"))
	}
	return copyGraph(ctx, src, dst, root, nil, nil, nil, opts)
}

// copyGraph copies a rooted directed acyclic graph (DAG) from the source CAS to
// the destination CAS with specified caching, concurrency limiter and tracker.
func copyGraph(ctx context.Context, src content.ReadOnlyStorage, dst content.Storage, root ocispec.Descriptor,
	proxy *cas.Proxy, limiter *semaphore.Weighted, tracker *status.Tracker, opts CopyGraphOptions) error {
	if proxy == nil {
		// use caching proxy on non-leaf nodes
		if opts.MaxMetadataBytes <= 0 {
			opts.MaxMetadataBytes = defaultCopyMaxMetadataBytes
		}
		proxy = cas.NewProxyWithLimit(src, cas.NewMemory(), opts.MaxMetadataBytes)
	}
	if limiter == nil {
		// if Concurrency is not set or invalid, use the default concurrency
		if opts.Concurrency <= 0 {
			opts.Concurrency = defaultConcurrency
		}
		limiter = semaphore.NewWeighted(int64(opts.Concurrency))
	}
	if tracker == nil {
		// track content status
		tracker = status.NewTracker()
	}
	// if FindSuccessors is not provided, use the default one
	if opts.FindSuccessors == nil {
		opts.FindSuccessors = content.Successors
	}

	// traverse the graph
	var fn syncutil.GoFunc[ocispec.Descriptor]
	fn = func(ctx context.Context, region *syncutil.LimitedRegion, desc ocispec.Descriptor) (err error) {
		// skip the descriptor if other go routine is working on it
		done, committed := tracker.TryCommit(desc)
		if !committed {
			return nil
		}
		defer func() {
			if err == nil {
				// mark the content as done on success
				close(done)
			}
		}()

		// skip if a rooted sub-DAG exists
		exists, err := dst.Exists(ctx, desc)
		if err != nil {
			return newCopyError("Exists", CopyErrorOriginDestination, err)
		}
		if exists {
			if opts.OnCopySkipped != nil {
				if err := opts.OnCopySkipped(ctx, desc); err != nil {
					return err
				}
			}
			return nil
		}

		// find successors while non-leaf nodes will be fetched and cached
		successors, err := opts.FindSuccessors(ctx, proxy, desc)
		if err != nil {
			return newCopyError("FindSuccessors", CopyErrorOriginSource, err)
		}
		successors = removeForeignLayers(successors)

		if len(successors) != 0 {
			// for non-leaf nodes, process successors and wait for them to complete
			region.End()
			if err := syncutil.Go(ctx, limiter, fn, successors...); err != nil {
				return err
			}
			for _, node := range successors {
				done, committed := tracker.TryCommit(node)
				if committed {
					return fmt.Errorf("%s: %s: successor not committed", desc.Digest, node.Digest)
				}
				select {
				case <-done:
				case <-ctx.Done():
					return ctx.Err()
				}
			}
			if err := region.Start(); err != nil {
				return err
			}
		}

		exists, err = proxy.Cache.Exists(ctx, desc)
		if err != nil {
			return fmt.Errorf("failed to check cache existence: %s: %w", desc.Digest, err)
		}
		if exists {
			return copyNode(ctx, proxy.Cache, dst, desc, opts)
		}
		return mountOrCopyNode(ctx, src, dst, desc, opts)
	}

	return syncutil.Go(ctx, limiter, fn, root)
}

// mountOrCopyNode tries to mount the node, if not falls back to copying.
func mountOrCopyNode(ctx context.Context, src content.ReadOnlyStorage, dst content.Storage, desc ocispec.Descriptor, opts CopyGraphOptions) error {
	// Need MountFrom and it must be a blob
	if opts.MountFrom == nil || descriptor.IsManifest(desc) {
		return copyNode(ctx, src, dst, desc, opts)
	}

	mounter, ok := dst.(registry.Mounter)
	if !ok {
		// mounting is not supported by the destination
		return copyNode(ctx, src, dst, desc, opts)
	}

	sourceRepositories, err := opts.MountFrom(ctx, desc)
	if err != nil {
		// Technically this error is not fatal, we can still attempt to copy the node
		// But for consistency with the other callbacks we bail out.
		return err
	}

	if len(sourceRepositories) == 0 {
		return copyNode(ctx, src, dst, desc, opts)
	}

	skipSource := errors.New("skip source")
	for i, sourceRepository := range sourceRepositories {
		// try mounting this source repository
		var mountFailed bool
		getContent := func() (io.ReadCloser, error) {
			// the invocation of getContent indicates that mounting has failed
			mountFailed = true

			if i < len(sourceRepositories)-1 {
				// If this is not the last one, skip this source and try next one
				// We want to return an error that we will test for from mounter.Mount()
				return nil, skipSource
			}
			// this is the last iteration so we need to actually get the content and do the copy
			// but first call the PreCopy function
			if opts.PreCopy != nil {
				if err := opts.PreCopy(ctx, desc); err != nil {
					return nil, err
				}
			}
			return src.Fetch(ctx, desc)
		}

		// Mount or copy
		if err := mounter.Mount(ctx, desc, sourceRepository, getContent); err != nil && !errors.Is(err, skipSource) {
			return newCopyError("Mount", CopyErrorOriginDestination, err)
		}

		if !mountFailed {
			// mounted, success
			if opts.OnMounted != nil {
				if err := opts.OnMounted(ctx, desc); err != nil {
					return err
				}
			}
			return nil
		}
	}

	// we copied it
	if opts.PostCopy != nil {
		if err := opts.PostCopy(ctx, desc); err != nil {
			return err
		}
	}

	return nil
}

// doCopyNode copies a single content from the source CAS to the destination CAS.
func doCopyNode(ctx context.Context, src content.ReadOnlyStorage, dst content.Storage, desc ocispec.Descriptor) error {
	rc, err := src.Fetch(ctx, desc)
	if err != nil {
		return newCopyError("Fetch", CopyErrorOriginSource, err)
	}
	defer rc.Close()
	err = dst.Push(ctx, desc, rc)
	if err != nil && !errors.Is(err, errdef.ErrAlreadyExists) {
		return newCopyError("Push", CopyErrorOriginDestination, err)
	}
	return nil
}

// copyNode copies a single content from the source CAS to the destination CAS,
// and apply the given options.
func copyNode(ctx context.Context, src content.ReadOnlyStorage, dst content.Storage, desc ocispec.Descriptor, opts CopyGraphOptions) error {
	if opts.PreCopy != nil {
		if err := opts.PreCopy(ctx, desc); err != nil {
			if err == SkipNode {
				return nil
			}
			return err
		}
	}

	if err := doCopyNode(ctx, src, dst, desc); err != nil {
		return err
	}

	if opts.PostCopy != nil {
		return opts.PostCopy(ctx, desc)
	}
	return nil
}

// copyCachedNodeWithReference copies a single content with a reference from the
// source cache to the destination ReferencePusher.
func copyCachedNodeWithReference(ctx context.Context, src *cas.Proxy, dst registry.ReferencePusher, desc ocispec.Descriptor, dstRef string) error {
	rc, err := src.FetchCached(ctx, desc)
	if err != nil {
		return newCopyError("Fetch", CopyErrorOriginSource, err)
	}
	defer rc.Close()

	err = dst.PushReference(ctx, desc, rc, dstRef)
	if err != nil && !errors.Is(err, errdef.ErrAlreadyExists) {
		return newCopyError("PushReference", CopyErrorOriginDestination, err)
	}
	return nil
}

// resolveRoot resolves the source reference to the root node.
func resolveRoot(ctx context.Context, src ReadOnlyTarget, srcRef string, proxy *cas.Proxy) (ocispec.Descriptor, error) {
	refFetcher, ok := src.(registry.ReferenceFetcher)
	if !ok {
		desc, err := src.Resolve(ctx, srcRef)
		if err != nil {
			return ocispec.Descriptor{}, newCopyError("Resolve", CopyErrorOriginSource, err)
		}
		return desc, nil
	}

	// optimize performance for ReferenceFetcher targets
	refProxy := &registryutil.Proxy{
		ReferenceFetcher: refFetcher,
		Proxy:            proxy,
	}
	root, rc, err := refProxy.FetchReference(ctx, srcRef)
	if err != nil {
		return ocispec.Descriptor{}, newCopyError("FetchReference", CopyErrorOriginSource, err)
	}
	defer rc.Close()
	// cache root if it is a non-leaf node
	fetcher := content.FetcherFunc(func(ctx context.Context, target ocispec.Descriptor) (io.ReadCloser, error) {
		if content.Equal(target, root) {
			return rc, nil
		}
		return nil, errors.New("fetching only root node expected")
	})
	if _, err = content.Successors(ctx, fetcher, root); err != nil {
		return ocispec.Descriptor{}, newCopyError("Successors", CopyErrorOriginSource, err)
	}

	// TODO: optimize special case where root is a leaf node (i.e. a blob)
	//       and dst is a ReferencePusher.
	return root, nil
}

// prepareCopy prepares the hooks for copy.
func prepareCopy(_ context.Context, dst Target, dstRef string, proxy *cas.Proxy, root ocispec.Descriptor, opts *CopyOptions) error {
	if refPusher, ok := dst.(registry.ReferencePusher); ok {
		// optimize performance for ReferencePusher targets
		preCopy := opts.PreCopy
		opts.PreCopy = func(ctx context.Context, desc ocispec.Descriptor) error {
			if preCopy != nil {
				if err := preCopy(ctx, desc); err != nil {
					return err
				}
			}
			if !content.Equal(desc, root) {
				// for non-root node, do nothing
				return nil
			}

			// for root node, prepare optimized copy
			if err := copyCachedNodeWithReference(ctx, proxy, refPusher, desc, dstRef); err != nil {
				return err
			}
			if opts.PostCopy != nil {
				if err := opts.PostCopy(ctx, desc); err != nil {
					return err
				}
			}
			// skip the regular copy workflow
			return SkipNode
		}
	} else {
		postCopy := opts.PostCopy
		opts.PostCopy = func(ctx context.Context, desc ocispec.Descriptor) error {
			if content.Equal(desc, root) {
				// for root node, tag it after copying it
				if err := dst.Tag(ctx, root, dstRef); err != nil {
					return newCopyError("Tag", CopyErrorOriginDestination, err)
				}
			}
			if postCopy != nil {
				return postCopy(ctx, desc)
			}
			return nil
		}
	}

	onCopySkipped := opts.OnCopySkipped
	opts.OnCopySkipped = func(ctx context.Context, desc ocispec.Descriptor) error {
		if !content.Equal(desc, root) {
			if onCopySkipped != nil {
				return onCopySkipped(ctx, desc)
			}
			return nil
		}

		// enforce tagging when the skipped node is root
		if refPusher, ok := dst.(registry.ReferencePusher); ok {
			// NOTE: refPusher tags the node by copying it with the reference,
			// so onCopySkipped shouldn't be invoked in this case
			return copyCachedNodeWithReference(ctx, proxy, refPusher, desc, dstRef)
		}

		// invoke onCopySkipped before tagging
		if onCopySkipped != nil {
			if err := onCopySkipped(ctx, desc); err != nil {
				return err
			}
		}
		if err := dst.Tag(ctx, root, dstRef); err != nil {
			return newCopyError("Tag", CopyErrorOriginDestination, err)
		}
		return nil
	}

	return nil
}

// removeForeignLayers in-place removes all foreign layers in the given slice.
func removeForeignLayers(descs []ocispec.Descriptor) []ocispec.Descriptor {
	var j int
	for i, desc := range descs {
		if !descriptor.IsForeignLayer(desc) {
			if i != j {
				descs[j] = desc
			}
			j++
		}
	}
	return descs[:j]
}
