#!/bin/bash
# usage: harmcheck.sh <patch.diff> <id> [only these properties, space separated]
# Applies a behaviour-preserving patch to a scratch copy of /repo's working tree and runs the quick
# check of every property that has a contract in a touched package. Prints PASS or FALSE-ALARM lines.
set -u
P=$1; ID=$2; ONLY=${3:-}
export GOFLAGS=-mod=mod GOPROXY=off GOSUMDB=off GOTOOLCHAIN=local
R=/tmp/harmrepo-$ID; O=/tmp/harmout-$ID
rm -rf $R $O && mkdir -p $R $O && rsync -a --exclude .git /repo/ $R/ && (cd $R && patch -s -p1 < $P) || { echo "$ID: patch does not apply"; rm -rf $R $O; exit 2; }
(cd $R && go build ./... 2>&1 | head -3)
dirs=$(grep '^+++ b/' $P | sed 's|^+++ b/||' | xargs -n1 dirname | sort -u)
props=$(for d in $dirs; do grep -h '^//@' /repo/$d/zz_verif_contracts.go 2>/dev/null | grep -ow 'C[0-9][0-9]'; done | sort -u)
claimed=$(python3 -c "import json; print(' '.join(c['property_id'] for c in json.load(open('/verif/MANIFEST.json'))['checks']))")
for p in $props; do
  if [ -n "$ONLY" ]; then case " $ONLY " in *" $p "*) ;; *) continue;; esac; fi
  case " $claimed " in *" $p "*) ;; *) continue;; esac
  out=$(cd /verif && bin/gocv check --property $p --repo $R --out $O 2>&1)
  if echo "$out" | grep -q '^VIOLATION'; then
    echo "$ID $p FALSE-ALARM"; echo "$out" | grep -A2 '^FAILED' | cut -c1-260 | head -12
  else
    echo "$ID $p PASS $(echo "$out" | tail -1 | grep -o '[0-9]* obligations')"
  fi
done
rm -rf $R $O
