#!/bin/sh
# sanity of the tool chain used by the checks
set -e
/verif/bin/gocv 2>/dev/null || true
echo '(check-sat)' > /tmp/gocv-selfcheck.smt2
z3-new /tmp/gocv-selfcheck.smt2 >/dev/null
/usr/bin/z3 /tmp/gocv-selfcheck.smt2 >/dev/null
cvc5 -q --lang=smt2 /tmp/gocv-selfcheck.smt2 >/dev/null
rm -f /tmp/gocv-selfcheck.smt2
echo "gocv tool chain ok"
