#!/usr/bin/env python3
"""Must-fail corpus runner.

Each corpus entry is a small source mutation of /repo (string replacement in one
file) that breaks a property while still compiling. The runner applies it to a
scratch copy of /repo, runs the property's check against the copy and verifies
that (a) the expected obligation fails, and, for entries marked harmless, that
nothing fails. The unmodified copy must verify with zero failures.

usage: selftest.py [--prop Cxx] [--id substring] [--jobs N]
"""
import sys, os, subprocess, shutil, tempfile, json, argparse, re, concurrent.futures as cf

sys.path.insert(0, "/verif/selftest")
ENV = dict(os.environ, GOFLAGS="-mod=mod", GOPROXY="off", GOSUMDB="off", GOTOOLCHAIN="local")

def load_corpus():
    ns = {"M": []}
    def mut(id, prop, file, old, new, expect, desc="", harmless=False):
        ns["M"].append(dict(id=id, prop=prop, file=file, old=old, new=new, expect=expect, desc=desc, harmless=harmless))
    ns["mut"] = mut
    for f in sorted(os.listdir("/verif/selftest")):
        if f.endswith(".py"):
            exec(open(os.path.join("/verif/selftest", f)).read(), ns)
    return ns["M"]

def run_one(m, base):
    d = tempfile.mkdtemp(prefix="gocv-selftest-")
    try:
        repo = os.path.join(d, "repo")
        subprocess.run(["rsync", "-a", "--exclude", ".git", base + "/", repo + "/"], check=True)
        path = os.path.join(repo, m["file"])
        s = open(path).read()
        if isinstance(m["old"], list):
            # several replacements in one file (renames): old and new are parallel lists
            for o, n in zip(m["old"], m["new"]):
                if o not in s:
                    return m, "STALE", "pattern not found in " + m["file"]
                s = s.replace(o, n, 1)
            open(path, "w").write(s)
        else:
            if m["old"] not in s:
                return m, "STALE", "pattern not found in " + m["file"]
            open(path, "w").write(s.replace(m["old"], m["new"], 1))
        b = subprocess.run(["go", "build", "./..."], cwd=repo, env=ENV, capture_output=True, text=True)
        if b.returncode != 0:
            return m, "NOCOMPILE", b.stderr[-400:]
        out = os.path.join(d, "out")
        os.makedirs(out)
        r = subprocess.run(["/verif/bin/gocv", "check", "--property", m["prop"], "--tier", "quick", "--repo", repo, "--out", out],
                           capture_output=True, text=True, env=ENV)
        failed = re.findall(r"^FAILED obligation (\S+)", r.stdout, re.M)
        if m["harmless"]:
            return m, ("OK" if r.returncode == 0 else "FALSE-ALARM"), ", ".join(failed)
        hit = [f for f in failed if any(e in f for e in m["expect"])]
        if r.returncode == 1 and hit:
            return m, "OK", ", ".join(failed)
        if r.returncode == 1:
            return m, "OTHER", "failed " + ", ".join(failed) + " but expected one of " + str(m["expect"])
        return m, "MISSED", r.stdout[-300:]
    finally:
        shutil.rmtree(d, ignore_errors=True)

def main():
    ap = argparse.ArgumentParser()
    ap.add_argument("--prop")
    ap.add_argument("--id")
    ap.add_argument("--jobs", type=int, default=4)
    ap.add_argument("--repo", default="/repo")
    a = ap.parse_args()
    ms = [m for m in load_corpus() if (not a.prop or m["prop"] == a.prop) and (not a.id or a.id in m["id"])]
    bad = 0
    with cf.ThreadPoolExecutor(max_workers=a.jobs) as ex:
        for m, st, info in ex.map(lambda m: run_one(m, a.repo), ms):
            print(f"{st:12s} {m['id']:10s} {m['prop']} {m['desc'][:60]:60s} {info[:160]}")
            if st not in ("OK",):
                bad += 1
    print(f"selftest: {len(ms)} mutations, {bad} not as expected")
    sys.exit(1 if bad else 0)

if __name__ == "__main__":
    main()
