#!/bin/bash
# creates a scratch worktree of /repo for a seeding sub-agent: detached HEAD, contract
# files removed by a commit inside the worktree (so `git diff`/`git status` show nothing of them)
set -e
name=$1
wt=/tmp/seedwt/$name
mkdir -p /tmp/seedwt
git -C /repo worktree add --detach -q $wt HEAD
cd $wt
find . -name zz_verif_contracts.go -delete
git add -A
git -c user.name=builder -c user.email=b@x commit -qm "scratch base" 
echo $wt
