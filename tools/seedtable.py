#!/usr/bin/env python3
# prints a markdown table of the seeded changes under /verif/seeded (from meta.json and NOTES.md)
import json, os, re, glob
rows = []
for d in sorted(glob.glob('/verif/seeded/C*-s*')):
    m = json.load(open(d + '/meta.json'))
    notes = open(d + '/NOTES.md').read() if os.path.exists(d + '/NOTES.md') else ''
    files = sorted(set(re.findall(r'^\+\+\+ b/(\S+)', open(d + '/patch.diff').read(), re.M)))
    title = ''
    for l in notes.splitlines():
        l = l.strip('# ').strip()
        if l and not l.lower().startswith('notes'):
            title = l
            break
    obl = m['check'].get('failed_obligations', [])
    rows.append((m['id'], ', '.join(files), title[:110], 'yes' if m['check']['caught'] else 'NO', '; '.join(obl[:2])))
print('| seed | file(s) | change | caught | failing obligation(s) (first two) |')
print('|---|---|---|---|---|')
for r in rows:
    print('| ' + ' | '.join(x.replace('|', '/') for x in r) + ' |')
