# Edited by hand as coverage grows; consumed by mkmanifest.py.
NOTYET = "not claimed in this revision: the functions this property depends on are not yet under contract (work in progress, see DESIGN.md section 9)"
for _p in ["C01","C02","C03","C04","C05","C06","C07","C08","C09","C10","C11","C13","C14","C15","C16","C18","C19","C20"]:
    na(_p, NOTYET)
na("C12", "tree equality across archive/tar, compress/gzip and the OS has no contract-level statement within reach of a function-modular verifier; the oras-go code in between is almost entirely calls into those libraries (DESIGN.md section 9, C12)")

claim("C17",
  "Unbounded proof of named obligations on the real retry transport: attempts bounded by the policy's stop point, a request with a one-shot body is never re-sent, every re-send starts from a fresh GetBody() body, no attempt after cancellation, clamp of GenericPolicy.Retry for arbitrary Backoff/Predicate values.",
  "Assumed: contracts of net/http.RoundTripper, context.Context, time.Timer (specs/std.spec); user callbacks (Predicate, Backoff, Policy factory, GetBody) do not mutate the request or policy; wall-clock pacing and timers are not modelled; integers mathematical with wrap-around abstraction.",
  "DESIGN.md section 9 C17")
