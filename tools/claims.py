# Edited by hand as coverage grows; consumed by mkmanifest.py.
NOTYET = "not claimed in this revision: the functions this property depends on are not yet under contract (work in progress, see DESIGN.md section 9)"
for _p in ["C01","C02","C03","C04","C06","C07","C08","C09","C10","C11","C13","C14","C15","C16","C18","C19","C20"]:
    na(_p, NOTYET)
na("C12", "tree equality across archive/tar, compress/gzip and the OS has no contract-level statement within reach of a function-modular verifier; the oras-go code in between is almost entirely calls into those libraries (DESIGN.md section 9, C12)")

claim("C17",
  "Unbounded proof of named obligations on the real retry transport: attempts bounded by the policy's stop point, a request with a one-shot body is never re-sent, every re-send starts from a fresh GetBody() body, no attempt after cancellation, clamp of GenericPolicy.Retry for arbitrary Backoff/Predicate values.",
  "Assumed: contracts of net/http.RoundTripper, context.Context, time.Timer (specs/std.spec); user callbacks (Predicate, Backoff, Policy factory, GetBody) do not mutate the request or policy; wall-clock pacing and timers are not modelled; integers mathematical with wrap-around abstraction.",
  "DESIGN.md section 9 C17")

claim("C05",
  "Unbounded proof on the real verifying reader and its users: VerifyReader keeps its representation invariant (remaining + delivered = descriptor size, remaining >= 0); Verify returns nil only after exactly Size bytes were delivered, EOF was confirmed on the underlying stream and the digest verifier agreed; ReadAll / ioutil.CopyBuffer return nil only for a matched stream; cas.Memory stores a value only after that.",
  "Assumed: contracts of io.LimitedReader, io.TeeReader, io.ReadFull, io.CopyBuffer, go-digest Verifier and sync.Map (specs/std.spec); reading the wrapped stream does not re-enter the VerifyReader (explicit `assume` in Verify); byte contents are tracked by count, not by value; hash functions are opaque. OCI/file store publication steps are covered under C10/C06 as they come under contract.",
  "DESIGN.md section 9 C05")
