# Edited by hand as coverage grows; consumed by mkmanifest.py.
NOTYET = "not claimed in this revision: the functions this property depends on are not yet under contract (work in progress, see DESIGN.md section 9)"
for _p in ["C02","C03","C04","C06","C08","C11","C14","C16","C18","C20"]:
    na(_p, NOTYET)
na("C12", "tree equality across archive/tar, compress/gzip and the OS has no contract-level statement within reach of a function-modular verifier; the oras-go code in between is almost entirely calls into those libraries (DESIGN.md section 9, C12)")

claim("C17",
  "Unbounded proof of named obligations on the real retry transport: attempts bounded by the policy's stop point, a request with a one-shot body is never re-sent, every re-send starts from a fresh GetBody() body, no attempt after cancellation, clamp of GenericPolicy.Retry for arbitrary Backoff/Predicate values.",
  "Assumed: contracts of net/http.RoundTripper, context.Context, time.Timer (specs/std.spec); user callbacks (Predicate, Backoff, Policy factory, GetBody) do not mutate the request or policy; wall-clock pacing and timers are not modelled; integers mathematical with wrap-around abstraction.",
  "DESIGN.md section 9 C17")

claim("C05",
  "Unbounded proof on the real verifying reader and its users: VerifyReader keeps its representation invariant (remaining + delivered = descriptor size, remaining >= 0); Verify returns nil only after exactly Size bytes were delivered, EOF was confirmed on the underlying stream and the digest verifier agreed; ReadAll / ioutil.CopyBuffer return nil only for a matched stream; cas.Memory stores a value only after that.",
  "Assumed: contracts of io.LimitedReader, io.TeeReader, io.ReadFull, io.CopyBuffer, go-digest Verifier and sync.Map (specs/std.spec); reading the wrapped stream does not re-enter the VerifyReader (explicit `assume` in Verify); byte contents are tracked by count, not by value; hash functions are opaque. OCI/file store publication steps are covered under C10/C06 as they come under contract.",
  "DESIGN.md section 9 C05")

claim("C07",
  "Unbounded proof that the in-memory graph keeps its representation invariant (nodes/successors/predecessors mutually consistent, no empty predecessor entry, set objects separate) from any state through index and Remove, that index/Remove change exactly the stated entries, and that Predecessors returns each predecessor of the node exactly once and nothing else.",
  "Assumed: content addressing (the successor set is a function of the descriptor key: contract of content.Successors, trusted), sync.RWMutex semantics, len(map) counter model, maps not grown while ranged over. Not yet under contract in this revision: IndexAll's goroutines, the stores' calls of Index after Push, reopen (loadIndex) — named in the evidence as outside.",
  "DESIGN.md section 9 C07")
claim("C01",
  "Unbounded proof of the successor filter used by Copy: removeForeignLayers returns exactly the non-foreign elements of its input in order (ghost source-index witness), IsForeignLayer/IsManifest/FromOCI are exact. (Partial: the traversal closure obligations are added as they come under contract.)",
  "Assumed: Go slice semantics as modelled (append, in-place writes). The concurrent traversal (copyGraph closure), root tagging and the DAG-closure lemma are NOT yet discharged in this revision; the claim is limited to the obligations listed in the evidence.",
  "DESIGN.md section 9 C01")

claim("C09",
  "Unbounded proof on the real delete/GC path of the OCI store: the tag resolver keeps its invariant (a reference is in a digest's tag set iff it resolves to that digest), isTagged is exact, delete untags only references whose descriptor equals the target and keeps every other tag, Delete queues a referrer or dangling successor only when it is untagged and makes progress on every iteration (variant: stored blobs), gcIndex's subject-chain walk terminates (variant: Merkle height) and preserves both invariants, GC removes a file only when its digest is not in the rebuilt graph's digest set and only under a known algorithm directory, graph.Remove/DigestSet are exact.",
  "Assumed (trusted contracts, listed in the evidence): Storage.Delete removes exactly one blob on success, saveIndex, registry.Referrers, graph.IndexAll, manifestutil.Subject together with Merkle acyclicity (height decreases along subject links), os.ReadDir/Remove, content addressing. Not decided: that the set removed equals exactly the unreachable set on disk (file-system state is not modelled), and the conflicting corner where an untagged referrer is also listed by a surviving index.",
  "DESIGN.md section 9 C09")
claim("C10",
  "Publication-discipline obligations only (the crash-point quantifier has no contract-level counterpart): in oci.Store.delete the blob is removed only after the graph entry was removed and, when a tag was dropped and AutoSaveIndex is on, only after the index without it was saved. (Further discipline obligations on Storage.Push/ingest and writeIndexFile are added as they come under contract.)",
  "Crash points are NOT enumerated; POSIX rename atomicity and durability of completed calls are assumed; saveIndex and Storage.Delete are trusted contracts in this revision.",
  "DESIGN.md section 9 C10")

claim("C15",
  "Unbounded proof on the real listing code: parseLink takes exactly the text between '<' and the first '>' and never indexes out of range, an absent Link header yields errNoLink and nothing else does; limitReader/limitSize use n or the default (exact comparison); filterReferrers is an exact order-preserving filter (identity for an empty type); isReferrersFilterApplied is exact; the tag page loop sends `last` only on the first request, follows the returned link, stops with nil exactly on errNoLink and returns any other error unchanged; a tag page calls the callback exactly once with the decoded list, returns its error unchanged, decodes only through the metadata limit and sends n/last exactly when configured.",
  "Assumed: contracts of net/http, net/url, strings.Split/IndexByte, io.LimitReader, encoding/json (decoding writes only through its target; a truncated document failing to decode is json's business), Repository.do (trusted), user callbacks do not touch the response object (explicit assumption). Referrers API pages and the catalog listing follow the same pattern and are not yet under contract in this revision.",
  "DESIGN.md section 9 C15")

claim("C13",
  "Validation clauses only (second sentence of the property): unbounded proof that verifyContentDigest is exact, generateBlobDescriptor/generateDescriptor implement the documented decision table (length, header digest, reference digest, HEAD needs a digest), blob and manifest Fetch return a reader only for status 200 with consistent length and digest header and close the body on every error path, 404 maps to ErrNotFound, routing between blob and manifest endpoints is exactly membership in the configured (or default) manifest media types, and the seekable reader sends a Range request only for a position strictly inside the content with header bounds offset..size-1, accepts only 206, keeps its position on error and advances its offset by the bytes read.",
  "Assumed: contracts of net/http, mime, go-digest Parse (Parse(s) returns s and an error iff s is not a digest), Repository.do and AppendRepositoryScope (trusted frames), fmt.Sprint* pure. Not decided: registry state and histories, that every request is one the distribution spec allows, Push/Mount/Resolve/FetchReference/delete paths (not yet under contract), 64-bit overflow of absurd seek offsets is excluded by hypothesis in the Seek postcondition.",
  "DESIGN.md section 9 C13")

claim("C19",
  "Unbounded proof on the real pack code with a ghost push log: every rejection named in the property (subject under v1.0, missing/invalid artifact type, invalid config media type, unsupported version) happens before any push; an invalid created annotation stops before the manifest push; the manifest handed to the push has the requested subject, artifact type, layers and config or the documented placeholders; every invented blob (empty config, empty layer) is present before the manifest is pushed; the returned descriptor's digest and size are those of exactly the bytes pushed, its media type, artifact type and annotations as requested; a supplied valid created annotation is kept without reading the clock and the caller's annotation map is never written.",
  "Assumed: content.Pusher / ReadOnlyStorage interface contracts (push log, presence), json.Marshal, regexp.MatchString (opaque predicate), time.Parse/Now, go-digest FromBytes (opaque function of the byte slice), maps.Copy writes only its destination. packArtifact / packManifestV1_1_RC2 (deprecated Pack) are not under contract in this revision.",
  "DESIGN.md section 9 C19")
