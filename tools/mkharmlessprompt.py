#!/usr/bin/env python3
# writes /tmp/seedwt/prompt_<name>.txt for a sub-agent that produces behaviour-preserving refactors
# (false-alarm corpus): the property text only
import json, sys
pid, name = sys.argv[1], sys.argv[2]
props = {json.loads(l)['id']: json.loads(l) for l in open('/verif/properties.jsonl')}
d = props[pid]
tmpl = '''You are helping test a verification effort for the Go library oras-project/oras-go (module oras.land/oras-go/v2). You have your own scratch git worktree of the repository at {wt} (work ONLY there; do not read or write /repo or /verif; ignore git history). The sandbox has no network: prefix every Go command with `GOFLAGS=-mod=mod GOPROXY=off GOSUMDB=off GOTOOLCHAIN=local`.

Here is a semantic property the library satisfies:

TITLE: {title}
STATEMENT: {statement}
QUANTIFIED OVER: {quant}

Your task: produce SIX different, independent, BEHAVIOUR-PRESERVING changes to the library's non-test source code, each inside a function that is central to the mechanism that makes this property hold (find those functions by reading the code). They should be the kind of change a maintainer makes in a clean-up pull request, and the property must still hold afterwards for every input, schedule and history (no behaviour difference at all that a caller could observe, apart from error message text where noted). Use a different kind of refactor for each of the six, chosen from: (a) rename local variables and/or parameters of a function; (b) extract a sub-expression into a new local variable, or inline a local variable into its single use; (c) invert an if condition and swap its branches, or turn an if/else into an early-return guard clause (or back); (d) reorder two adjacent statements that are independent of each other; (e) rewrite a loop in an equivalent form (range loop <-> index loop, `for i := range n`, loop condition moved into an `if ... break`) ; (f) extract a few lines into a new small unexported helper function in the same file (or inline an existing tiny helper); (g) change only the text of an error message or add a comment / blank lines; (h) replace a switch by an equivalent if-chain or vice versa. Keep each diff small (3-25 lines) and spread the six over at least three different functions.

Each change, on its own, must compile (`go build ./...`) and pass the existing tests of every package it touches plus the root package (`go test -vet=off -count=1 ./<pkg>/ .`); the test TestStore_Dir_OverwriteSymlink_RemovalFailed in content/file is known to fail in this sandbox regardless and may be ignored.

Deliverables (create the directories): for k in 1..6 write
  /tmp/seedout/{name}/h<k>/patch.diff   (unified diff from `git diff` in the worktree, applying with `git apply` at the worktree root)
  /tmp/seedout/{name}/h<k>/NOTES.md     (two or three lines: the function, the kind of refactor, why behaviour is unchanged)
Verify each patch applies to a clean worktree (`git checkout -- . && git clean -fdq`), builds and passes the tests. Leave the worktree clean when done. In your final message, list the six changes in one line each.'''
open('/tmp/seedwt/prompt_%s.txt' % name, 'w').write(tmpl.format(wt='/tmp/seedwt/' + name, title=d['title'], statement=d['statement'], quant=d['quantifier']['text'], name=name))
print('/tmp/seedwt/prompt_%s.txt' % name)
