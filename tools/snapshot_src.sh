#!/bin/bash
# Refreshes /verif/baseline_src: a copy of the non-test Go sources of every package of /repo that
# has a contract file. gocv compares each declaration under contract with this baseline and, when
# the only difference is a consistent renaming of locals/parameters, resolves the contract's old
# names to the new ones (gocv/rename.go). Run it after validating contracts against the tree
# (tools/runall.sh green), never from a registered check.
cd /repo || exit 2
rm -rf /verif/baseline_src && mkdir -p /verif/baseline_src
for f in $(find . -name zz_verif_contracts.go); do
  d=$(dirname $f)
  mkdir -p /verif/baseline_src/$d
  for g in $d/*.go; do
    case $g in *_test.go|*/zz_verif_contracts.go) continue;; esac
    cp $g /verif/baseline_src/$d/
  done
done
du -sh /verif/baseline_src
