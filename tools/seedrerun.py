#!/usr/bin/env python3
# Re-runs every seeded change under /verif/seeded against the current machinery: a scratch copy
# of /repo's working tree gets the patch, the property's quick check runs on it, and the
# "check" part of meta.json is refreshed. Usage: seedrerun.py [--jobs N] [seed-id ...]
import json, os, subprocess, sys, glob, shutil, concurrent.futures as cf
jobs = 3
args = sys.argv[1:]
if args and args[0] == '--jobs':
    jobs = int(args[1]); args = args[2:]
seeds = sorted(glob.glob('/verif/seeded/C*-s*'))
if args:
    seeds = [s for s in seeds if os.path.basename(s) in args]
def run(d):
    sid = os.path.basename(d)
    m = json.load(open(d + '/meta.json'))
    prop = m['property']
    tmp = '/tmp/seedrerun-' + sid
    shutil.rmtree(tmp, ignore_errors=True)
    os.makedirs(tmp + '/repo'); os.makedirs(tmp + '/out')
    subprocess.run(['rsync', '-a', '--exclude', '.git', '/repo/', tmp + '/repo/'], check=True)
    r = subprocess.run(['patch', '-s', '-p1', '-i', d + '/patch.diff'], cwd=tmp + '/repo', capture_output=True, text=True)
    if r.returncode != 0:
        shutil.rmtree(tmp, ignore_errors=True)
        return sid, None, 'patch does not apply: ' + r.stdout[-200:]
    r = subprocess.run(['/verif/bin/gocv', 'check', '--property', prop, '--repo', tmp + '/repo', '--out', tmp + '/out'], capture_output=True, text=True, cwd='/verif')
    failed = [l.split()[2] for l in r.stdout.splitlines() if l.startswith('FAILED')]
    replayed = any(l.startswith('VIOLATION') and 'no-failing-input-found' not in l for l in r.stdout.splitlines())
    m['check'] = {"command": "git -C /repo apply /verif/seeded/%s/patch.diff; bin/gocv check --property %s; git -C /repo checkout -- ." % (sid, prop),
                  "caught": len(failed) > 0, "failed_obligations": failed[:8], "exit_code": r.returncode, "counterexample_replayed": replayed}
    json.dump(m, open(d + '/meta.json', 'w'), indent=1)
    shutil.rmtree(tmp, ignore_errors=True)
    return sid, len(failed) > 0, ', '.join(failed[:2])
with cf.ThreadPoolExecutor(max_workers=jobs) as ex:
    res = list(ex.map(run, seeds))
bad = 0
for sid, ok, info in res:
    print('%-8s %-7s %s' % (sid, 'caught' if ok else ('STALE' if ok is None else 'MISSED'), info[:200]))
    if not ok:
        bad += 1
print('seedrerun: %d seeds, %d not caught' % (len(res), bad))
sys.exit(1 if bad else 0)
