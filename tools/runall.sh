#!/bin/bash
# runs the quick check of every claimed property; prints one line each; exit 1 if any fails
cd /verif
export GOFLAGS=-mod=mod GOPROXY=off GOSUMDB=off GOTOOLCHAIN=local
rc=0
for p in $(python3 -c "import json; print(' '.join(c['property_id'] for c in json.load(open('MANIFEST.json'))['checks']))"); do
  out=$(bin/gocv check --property $p --tier quick 2>&1)
  line=$(echo "$out" | tail -1)
  echo "$line"
  if echo "$out" | grep -q "^VIOLATION"; then rc=1; echo "$out" | grep "^FAILED" | head -5; fi
done
exit $rc
