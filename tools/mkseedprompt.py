#!/usr/bin/env python3
# writes /tmp/seedwt/prompt_<name>.txt for a seeding sub-agent: the property text only
import json, sys
pid, name = sys.argv[1], sys.argv[2]
extra = sys.argv[3] if len(sys.argv) > 3 else ""
props = {json.loads(l)['id']: json.loads(l) for l in open('/verif/properties.jsonl')}
d = props[pid]
tmpl = '''You are helping test a verification effort for the Go library oras-project/oras-go (module oras.land/oras-go/v2). You have your own scratch git worktree of the repository at {wt} (work ONLY there; do not read or write /repo or /verif; ignore git history). The sandbox has no network: prefix every Go command with `GOFLAGS=-mod=mod GOPROXY=off GOSUMDB=off GOTOOLCHAIN=local`.

Here is a semantic property the library is supposed to satisfy:

TITLE: {title}
STATEMENT: {statement}
QUANTIFIED OVER: {quant}

Your task: produce TWO different, independent, realistic changes to the library's non-test source code (the kind of change a maintainer might plausibly make during a refactor, optimisation or "simplification" — not sabotage that any reviewer would spot, no new imports of test helpers, no build tags) such that each change, on its own:
 1. still compiles (`go build ./...`) and passes the EXISTING test suite of every package it touches plus the root package (`go test -vet=off -count=1 ./<pkg>/ .`); the test TestStore_Dir_OverwriteSymlink_RemovalFailed in content/file is known to fail in this sandbox regardless and may be ignored;
 2. breaks the property above — but only in a situation that needs something specific to manifest (a particular input shape, interleaving, error placement, option value), which is why the existing tests do not notice;
 3. comes with a demonstration: a new in-package Go test file named zz_demo_test.go (test function names starting with TestDemo) that PASSES on the unchanged code and FAILS with your change applied, deterministic, finishing in a few seconds.
The two changes should break different sentences/mechanisms of the property and touch different functions if at all possible. Prefer small diffs (1-15 lines). Changes to functions central to the property's mechanism are most useful.{extra}

Deliverables (create the directories): for k in 1,2 write
  /tmp/seedout/{name}/s<k>/patch.diff        (unified diff from `git diff` in the worktree, applying with `git apply` at the worktree root; library source only, NOT the demo test)
  /tmp/seedout/{name}/s<k>/zz_demo_test.go   (the demonstration test)
  /tmp/seedout/{name}/s<k>/PKG               (one line: the package directory relative to the repo root where zz_demo_test.go must be placed, e.g. `.` or `content/oci`)
  /tmp/seedout/{name}/s<k>/NOTES.md          (what the change is, which sentence of the property it breaks, what is needed for it to manifest, how the demo shows it)
Before finishing, verify each deliverable yourself from a clean worktree state (`git checkout -- . && git clean -fdq`): demo passes without the patch; with the patch applied the build and existing tests pass and the demo fails. Leave the worktree clean (no applied patch, no demo file) when done. In your final message, summarise the two changes in a few lines each.'''
open('/tmp/seedwt/prompt_%s.txt' % name, 'w').write(tmpl.format(wt='/tmp/seedwt/' + name, title=d['title'], statement=d['statement'], quant=d['quantifier']['text'], name=name, extra=(" " + extra if extra else "")))
print('/tmp/seedwt/prompt_%s.txt' % name)
