#!/usr/bin/env python3
"""Regenerates /verif/MANIFEST.json from the table below (single source of truth)."""
import json, subprocess, os

ENV = "GOFLAGS=-mod=mod GOPROXY=off GOSUMDB=off GOTOOLCHAIN=local"
TECH = "contract-based deductive verification: weakest-precondition style VCs generated from go/ssa of the real code against //@ contracts, discharged by z3/cvc5"

# property -> (claimed?, level text, level note / NA reason, design ref)
P = {}
def claim(pid, text, note, ref):
    P[pid] = (True, text, note, ref)
def na(pid, reason):
    P[pid] = (False, reason, "", "")

exec(open(os.path.join(os.path.dirname(__file__), "claims.py")).read())

hook_commits = subprocess.run(["git", "-C", "/repo", "log", "--format=%H %s"], capture_output=True, text=True).stdout.splitlines()
hooks = [l.split()[0] for l in hook_commits if l.split(" ", 1)[1].startswith("verif:")]

checks, nas = [], []
for pid in sorted(P):
    ok, text, note, ref = P[pid]
    if not ok:
        nas.append({"property_id": pid, "reason": text})
        continue
    checks.append({
        "property_id": pid,
        "quick_cmd": f"{ENV} /verif/bin/gocv check --property {pid} --tier quick",
        "thorough_cmd": f"{ENV} /verif/bin/gocv check --property {pid} --tier thorough",
        "evidence_file": f"/verif/evidence/{pid}.json",
        "replay_cmd_template": "cat {path}",
        "engine": "gocv",
        "level_claimed": {"category": "proof", "text": text, "design_ref": ref},
        "level_note": note,
        "technique": TECH,
    })

m = {
    "version": 1,
    "setup_cmd": f"cd /verif/gocv && {ENV} go build -o /verif/bin/gocv . && cd /verif && ./tools/selfcheck.sh",
    "hooks": {
        "guard": "verif",
        "enable": "go build tag `verif`: contracts are comment-only files zz_verif_contracts.go (//go:build verif) next to the code; gocv loads /repo with -tags=verif. No executable hook code.",
        "baseline_off_cmd": f"cd /repo && {ENV} go test -vet=off -count=1 ./...",
        "source_commits": hooks,
        "add_only": True,
    },
    "engines": [{"name": "gocv", "path": "/verif/gocv", "serves_properties": [c["property_id"] for c in checks],
                 "kind_free_text": "self-written verification-condition generator for Go (go/packages + go/ssa v0.29.0): passive-form symbolic execution per function, modular calls by contract, loop invariants, ghost state; SMT-LIB2 obligations raced on z3 4.8.12 / z3 5.1.0 / cvc5 1.0"}],
    "checks": checks,
    "not_applicable": nas,
    "notes": "All checks rebuild SSA from /repo's working tree on every run. Obligation names are stable (function/kind:label). A failed obligation is reported as VIOLATION with a replay file naming the obligation and carrying the solver output. See DESIGN.md.",
}
json.dump(m, open("/verif/MANIFEST.json", "w"), indent=1)
print("claimed:", [c["property_id"] for c in checks], "not applicable:", [n["property_id"] for n in nas])
