#!/bin/bash
# usage: seedcheck.sh <worktree> <seed dir> <property> <demo package dir (relative)> <seed id>
# Confirms a seeded change (existing tests pass, demo fails with / passes without), runs the
# property's check against /repo with the change applied, undoes it, and files the seed.
set -u
WT=$1; SD=$2; PROP=$3; PKG=$4; ID=$5
export GOFLAGS=-mod=mod GOPROXY=off GOSUMDB=off GOTOOLCHAIN=local
cd $WT || exit 2
git checkout -q -- . 2>/dev/null; find . -name zz_verif_contracts.go -delete 2>/dev/null
rm -f $PKG/zz_demo_test.go
cp $SD/zz_demo_test.go $PKG/zz_demo_test.go
demo_wo=$(go test -vet=off -count=1 -run 'Demo' ./$PKG/ 2>&1 | tail -1)
git apply $SD/patch.diff || { echo "patch does not apply"; exit 2; }
build=$(go build ./... 2>&1 | tail -2)
pkgs=$(git diff --name-only | xargs -n1 dirname | sort -u | sed 's|^|./|' | tr '\n' ' ')
rm -f $PKG/zz_demo_test.go
existing=$(go test -vet=off -count=1 $pkgs . 2>&1 | grep -v "^ok\|no test files" | grep -v "RemovalFailed" | grep -E "^(--- FAIL|FAIL|panic)" | head -5)
cp $SD/zz_demo_test.go $PKG/zz_demo_test.go
demo_w=$(go test -vet=off -count=1 -run 'Demo' ./$PKG/ 2>&1 | tail -1)
rm -f $PKG/zz_demo_test.go
git apply -R $SD/patch.diff
echo "build: [$build] existing-failures: [$existing]"
echo "demo without change: $demo_wo"
echo "demo with change:    $demo_w"
# run the check against /repo with the change
# (a scratch copy of /repo's working tree is used so that several seeds can be checked at once;
# the recorded command is the equivalent one on /repo itself)
rm -rf /tmp/seedrepo-$ID && mkdir -p /tmp/seedrepo-$ID /tmp/seedout-$ID && rsync -a --exclude .git /repo/ /tmp/seedrepo-$ID/ && (cd /tmp/seedrepo-$ID && patch -s -p1 < $SD/patch.diff) && (cd /verif && bin/gocv check --property $PROP --repo /tmp/seedrepo-$ID --out /tmp/seedout-$ID 2>&1 | grep -E "^FAILED|^gocv|replayed" | cut -c1-200 > /tmp/seedout-$ID/result.txt); rm -rf /tmp/seedrepo-$ID; cat /tmp/seedout-$ID/result.txt
mkdir -p /verif/seeded/$ID && cp $SD/patch.diff /verif/seeded/$ID/ && cp $SD/zz_demo_test.go /verif/seeded/$ID/ && cp $SD/NOTES.md /verif/seeded/$ID/ 2>/dev/null
caught=$(grep -c "^FAILED" /tmp/seedout-$ID/result.txt)
python3 - "$ID" "$PROP" "$PKG" "$demo_wo" "$demo_w" "$existing" "$caught" <<'PY'
import json,sys
i,p,pkg,dwo,dw,ex,caught=sys.argv[1:8]
failed=[l.split()[2] for l in open(f'/tmp/seedout-{i}/result.txt') if l.startswith('FAILED')]
json.dump({"id":i,"property":p,"demo_package_dir":pkg,"confirmed":{"existing_tests_with_change":"pass" if not ex else ex,"demo_without_change":dwo,"demo_with_change":dw},
 "check":{"command":f"git -C /repo apply seeded/{i}/patch.diff; gocv check --property {p}; git -C /repo checkout -- .","caught":int(caught)>0,"failed_obligations":failed[:8]}},open(f'/verif/seeded/{i}/meta.json','w'),indent=1)
PY
rm -rf /tmp/seedout-$ID
